//! Harnesses for core/src/bitfield.rs (child module: sees private items).
#![allow(dead_code, unused_imports)]
use super::*;
use crate::verif_support::*;

/// Reference: lowest aligned all-zero block of 2^order bits in a row.
fn ref_fza(v: u64, order: usize) -> Option<(u64, usize)> {
    let n = 1usize << order;
    let mut off = 0usize;
    while off < 64 {
        let mask = (u64::MAX >> (64 - n)) << off;
        if v & mask == 0 {
            return Some((v | mask, off));
        }
        off += n;
    }
    None
}

fn c23_body(order: usize) {
    let v: u64 = kani::any();
    let r = first_zeros_aligned(v, order);
    let e = ref_fza(v, order);
    vassert!("C23", r.is_none() == e.is_none(), "reports no block exactly when the row has no free aligned block");
    if let (Some((rv, ro)), Some((ev, eo))) = (r, e) {
        vassert!("C23", ro == eo, "reports the lowest free aligned block");
        vassert!("C23", rv == ev, "returns the row with exactly that block's bits additionally set");
    }
    vcover!("C23", r.is_some() && (order == 6 || v != 0), "block found (in a non-empty row for orders below 6)");
    vcover!("C23", r.is_none(), "no block");
}

// @h props=C23 tier=quick geom=4 panics=C23 mem=C18
#[kani::proof]
#[kani::unwind(66)]
fn c23_fza_o0() {
    c23_body(0)
}
#[kani::proof]
#[kani::unwind(34)]
fn c23_fza_o1() {
    c23_body(1)
}
#[kani::proof]
#[kani::unwind(18)]
fn c23_fza_o2() {
    c23_body(2)
}
#[kani::proof]
#[kani::unwind(10)]
fn c23_fza_o3() {
    c23_body(3)
}
#[kani::proof]
#[kani::unwind(6)]
fn c23_fza_o4() {
    c23_body(4)
}
#[kani::proof]
#[kani::unwind(4)]
fn c23_fza_o5() {
    c23_body(5)
}
#[kani::proof]
#[kani::unwind(3)]
fn c23_fza_o6() {
    c23_body(6)
}
