//! Harness support + checks for core/src/local.rs
#![allow(dead_code, unused_imports)]
use super::*;
use crate::verif_support::*;
use core::sync::atomic::Ordering::Relaxed;

/// Raw slot access (bypassing the observers)
pub(crate) fn slot_atom<'a>(l: &'a Locals<'a>, class: Class, idx: usize) -> &'a Atom<LocalTree> {
    &l.locals(class).unwrap()[idx].tree
}
pub(crate) fn set_slot(l: &Locals<'_>, class: Class, idx: usize, present: bool, row: usize, free: usize) {
    let v = if present { LocalTree::with(RowId(row), free) } else { LocalTree::none() };
    let a: &Atom<LocalTree> = unsafe { &*(slot_atom(core::mem::transmute(l), class, idx) as *const _) };
    a.0.store(v.into_bits(), Relaxed);
}
/// (present, row, free)
pub(crate) fn get_slot(l: &Locals<'_>, class: Class, idx: usize) -> (bool, usize, usize) {
    let a: &Atom<LocalTree> = unsafe { &*(slot_atom(core::mem::transmute(l), class, idx) as *const _) };
    let v = LocalTree::from_bits(a.0.load(Relaxed));
    (v.present(), v.row().0, v.free())
}
pub(crate) const LOCAL_SIZE: usize = core::mem::size_of::<Local>();


#[repr(align(64))]
struct LBuf([u8; 3 * 64]);

/// Three classes with one slot each, arbitrary slot contents.
fn any_locals(buf: &mut LBuf, policy: PolicyFn) -> (Locals<'_>, Classing) {
    let classing = Classing::new(&[(Class(0), 1), (Class(1), 1), (Class(2), 1)], Class(1), policy);
    let l = Locals::new(&mut buf.0, &classing).unwrap();
    for c in 0..3u8 {
        let row: usize = kani::any();
        let free: usize = kani::any();
        kani::assume(row < (1 << 20) && free <= TREE_FRAMES);
        set_slot(&l, Class(c), 0, kani::any(), row, free);
    }
    (l, classing)
}

/// `Locals::steal_any`: the class it reports is one the policy rates match or steal, and exactly
/// that slot was charged.
fn steal_any_body(class: u8, policy: PolicyFn) {
    let mut buf = LBuf([0; 3 * 64]);
    let (l, _c) = any_locals(&mut buf, policy);
    let pre: [(bool, usize, usize); 3] = core::array::from_fn(|c| get_slot(&l, Class(c as u8), 0));
    // (concrete request class and policy: symbolic ones make every slot address symbolic)
    let order: usize = kani::any();
    kani::assume(order <= crate::TREE_ORDER);
    let frames = 1usize << order;
    let tree: Option<TreeId> = if kani::any() { Some(TreeId(kani::any())) } else { None };
    install(Mode::Seq);
    let r = l.steal_any(Class(class), if kani::any() { Some(0) } else { None }, tree, frames, policy);
    set_mode(Mode::Off);
    vcover!("C13", class == 0 || r.as_ref().is_some_and(|r| r.class.0 != class), "stolen from another class's slot");
    for c in 0..3usize {
        let post = get_slot(&l, Class(c as u8), 0);
        match &r {
            Some(res) if res.class.0 as usize == c => {
                vassert!("C13", matches!(policy(Class(class), res.class, frames), Policy::Steal | Policy::Match(_)), "a slot is only stolen from if the policy rates its class as match or stealable for the request");
                vassert!("C04", pre[c].0 && post.0 && pre[c].2 >= frames && post.2 == pre[c].2 - frames, "exactly the requested frames are taken from that slot");
                vassert!("C15", tree.is_none_or(|t| pre[c].1 * 64 / TREE_FRAMES == t.0), "a targeted steal only uses a reservation of the target's tree");
            }
            _ => vassert!("C04", post == pre[c], "other slots are untouched"),
        }
    }
}

/// `Locals::demote_any`: only slots whose class the policy rates as demote are taken over.
fn demote_any_body(class: u8, policy: PolicyFn) {
    let mut buf = LBuf([0; 3 * 64]);
    let (l, _c) = any_locals(&mut buf, policy);
    let pre: [(bool, usize, usize); 3] = core::array::from_fn(|c| get_slot(&l, Class(c as u8), 0));
    let order: usize = kani::any();
    kani::assume(order <= crate::TREE_ORDER);
    let frames = 1usize << order;
    let local: Option<usize> = if kani::any() { Some(0) } else { None };
    install(Mode::Seq);
    let r = l.demote_any(Class(class), local, None, frames, policy);
    set_mode(Mode::Off);
    vcover!("C13", class == 2 || r.is_some(), "a reservation is demoted");
    if let Some((row, old)) = r {
        // find the source slot: the one that lost its reservation
        let mut src = usize::MAX;
        for c in 0..3usize {
            if c != class as usize && pre[c].0 && !get_slot(&l, Class(c as u8), 0).0 {
                src = c;
            }
        }
        vassert!("C13", src != usize::MAX, "a demotion empties exactly one other class's slot");
        if src != usize::MAX {
            vassert!("C13", policy(Class(class), Class(src as u8), frames) == Policy::Demote, "only reservations of a class the policy rates as demotable are taken over");
            vassert!("C04", pre[src].2 >= frames && row.0 == pre[src].1, "the taken-over reservation had enough frames and keeps its row");
            if local.is_some() {
                let mine = get_slot(&l, Class(class), 0);
                vassert!("C04", mine.0 && mine.1 == pre[src].1 && mine.2 == pre[src].2 - frames, "the requester's slot now holds the reservation minus the allocated frames");
                vassert!("C04", old.is_some() == pre[class as usize].0, "the requester's previous reservation is handed back for unreserving");
            } else {
                vassert!("C04", old.as_ref().is_some_and(|o| o.free == pre[src].2 - frames && o.class.0 == class), "without a slot the demoted reservation itself is handed back for unreserving");
            }
        }
    }
}

// @h props=C13 tier=quick geom=4 panics=C09 mem=C18
#[kani::proof]
#[kani::unwind(10)]
fn c13_locals_steal_any_c0() {
    steal_any_body(0, zeroed_policy)
}
#[kani::proof]
#[kani::unwind(10)]
fn c13_locals_steal_any_c2() {
    steal_any_body(2, zeroed_policy)
}
#[kani::proof]
#[kani::unwind(10)]
fn c13_locals_steal_any_c1_custom() {
    steal_any_body(1, custom_policy)
}
#[kani::proof]
#[kani::unwind(10)]
fn c13_locals_demote_any_c0() {
    demote_any_body(0, zeroed_policy)
}
#[kani::proof]
#[kani::unwind(10)]
fn c13_locals_demote_any_c1_custom() {
    demote_any_body(1, custom_policy)
}

#[repr(align(64))]
struct LBuf4([u8; 4 * 64]);
/// Classes with different slot counts (as the benchmark configurations produce: one / cores):
/// a valid slot index of the requester can exceed the slot count of the class it steals from.
fn uneven_body(steal: bool, flip: bool) {
    let policy = zeroed_policy;
    let mut buf = LBuf4([0; 4 * 64]);
    let classes = if flip { [(Class(0), 3), (Class(1), 1)] } else { [(Class(0), 1), (Class(1), 3)] };
    let classing = Classing::new(&classes, Class(1), policy);
    let l = Locals::new(&mut buf.0, &classing).unwrap();
    for (c, n) in classes {
        for i in 0..n {
            let row: usize = kani::any();
            let free: usize = kani::any();
            kani::assume(row < (1 << 20) && free <= TREE_FRAMES);
            set_slot(&l, c, i, kani::any(), row, free);
        }
    }
    // the requester: the class with three slots, any of its slots
    let class = if flip { Class(0) } else { Class(1) };
    let idx: usize = kani::any();
    kani::assume(idx < 3);
    install(Mode::Seq);
    let done = if steal {
        l.steal_any(class, Some(idx), None, 1, policy).is_some()
    } else {
        l.demote_any(class, Some(idx), None, 1, policy).is_some()
    };
    set_mode(Mode::Off);
    vcover!("C09", done && idx == 2, "a reservation of the class with fewer slots is used by the requester's last slot");
}
// @h props=C09,C18 tier=quick geom=4 panics=C09 mem=C18
#[kani::proof]
#[kani::unwind(10)]
fn c09_locals_uneven_steal() {
    uneven_body(true, false)
}
#[kani::proof]
#[kani::unwind(10)]
fn c09_locals_uneven_demote() {
    uneven_body(false, true)
}
