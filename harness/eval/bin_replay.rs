//! C20: one event of the trace-replay loop of eval/src/bin/replay.rs, sliced from the
//! current source (lib/slice_bin_replay.py) and run over a symbolic allocation table,
//! a symbolic event and a recording mock allocator.
#![allow(dead_code, unused_imports, unused_variables, unused_mut, unused_assignments, clippy::all)]
use super::*;
use core::cell::Cell;

macro_rules! vassert {
    ($p:literal, $cond:expr, $msg:literal) => {
        kani::assert($cond, concat!("[", $p, "] ", $msg))
    };
}
macro_rules! vcover {
    ($p:literal, $cond:expr, $msg:literal) => {
        kani::cover($cond, concat!("[", $p, "] cover: ", $msg))
    };
}

// table size N (pfns) and maximal block order MO are const parameters: 8/3 quick, 16/4 thorough

/// Records what the replayer asks of the allocator.
struct Mock {
    next: Cell<usize>,
    gets: Cell<usize>,
    puts: Cell<usize>,
    put_frame: Cell<usize>,
    put_order: Cell<usize>,
}
impl Mock {
    fn get(&self, frame: Option<FrameId>, flags: Request) -> Result<(FrameId, Class)> {
        self.gets.set(self.gets.get() + 1);
        Ok((FrameId(self.next.get()), flags.class))
    }
    fn put(&self, frame: FrameId, flags: Request) -> Result<()> {
        self.puts.set(self.puts.get() + 1);
        self.put_frame.set(frame.0);
        self.put_order.set(flags.order);
        if kani::any() { Ok(()) } else { Err(Error::Memory) }
    }
}

/// The sliced loop body, unchanged, as the body of a one-iteration loop (so that its
/// `continue` ends the step).
fn step<const N: usize>(
    llfree: &Mock,
    allocated: &mut [Allocation; N],
    entry: ParsedEntry,
    request: &dyn Fn(usize, u32, usize, usize) -> Request,
    reallocs: &mut usize,
    free_unkown: &mut usize,
) {
    let mut reallocs_l = *reallocs;
    let mut free_unkown_l = *free_unkown;
    {
        let mut reallocs = reallocs_l;
        let mut free_unkown = free_unkown_l;
        for _once in 0..1 {
            /*@SLICE@*/
        }
        reallocs_l = reallocs;
        free_unkown_l = free_unkown;
    }
    *reallocs = reallocs_l;
    *free_unkown = free_unkown_l;
}

#[derive(Clone, Copy)]
struct Blk {
    present: bool,
    order: usize,
    frame: usize,
}

/// A symbolic table satisfying the replayer's invariant: present entries are aligned blocks
/// inside the table, pairwise disjoint, with frames aligned to their order.
fn any_table<const N: usize, const MO: usize>() -> ([Allocation; N], [Blk; N]) {
    let mut t = [Allocation::new(); N];
    let mut m = [Blk { present: false, order: 0, frame: 0 }; N];
    for p in 0..N {
        let present: bool = kani::any();
        let order: usize = kani::any();
        let frame: usize = kani::any();
        kani::assume(order <= MO && frame < (1 << 20));
        if present {
            kani::assume(p % (1 << order) == 0 && p + (1 << order) <= N);
            kani::assume(frame % (1 << order) == 0);
        }
        t[p] = Allocation::new().with_present(present).with_frame(FrameId(frame)).with_order(order);
        m[p] = Blk { present, order, frame };
    }
    // pairwise disjoint
    for p in 0..N {
        for q in 0..N {
            if p < q && m[p].present && m[q].present {
                kani::assume(p + (1 << m[p].order) <= q);
            }
        }
    }
    (t, m)
}

fn free_event<const N: usize, const MO: usize>() {
    let (mut table, model) = any_table::<N, MO>();
    let pfn: usize = kani::any();
    let k: usize = kani::any();
    kani::assume(k <= MO && pfn < N && pfn % (1 << k) == 0);
    let entry = ParsedEntry { alloc: false, pfn: pfn as u32, cpuid: kani::any(), order: k as u8, flags: kani::any(), time: 0.0, pid: kani::any() };
    let mock = Mock { next: Cell::new(0), gets: Cell::new(0), puts: Cell::new(0), put_frame: Cell::new(0), put_order: Cell::new(0) };
    let request = |order: usize, _gfp: u32, _core: usize, _pid: usize| Request::new(order, Class(0), None);
    let (mut reallocs, mut unknown) = (0usize, 0usize);

    // the allocation covering the event's block, if any (at most one: blocks are disjoint)
    let mut cover: Option<usize> = None;
    for a in 0..N {
        if model[a].present && model[a].order >= k && a <= pfn && pfn < a + (1 << model[a].order) {
            cover = Some(a);
        }
    }
    // any present block that merely intersects the event's block without covering it makes the
    // event malformed (frees frames of two allocations at once): outside the claim
    for a in 0..N {
        if model[a].present && model[a].order < k {
            kani::assume(!(pfn <= a && a < pfn + (1 << k)));
        }
    }
    vcover!("C20", cover.is_some_and(|a| model[a].order > k && a != pfn), "free of a middle/last part of a larger allocation");
    vcover!("C20", cover.is_some_and(|a| model[a].order == k), "free of a whole allocation");
    vcover!("C20", cover.is_none(), "free of an unknown block");

    step(&mock, &mut table, entry, &request, &mut reallocs, &mut unknown);

    vassert!("C20", mock.gets.get() == 0, "a free event allocates nothing");
    match cover {
        None => {
            vassert!("C20", mock.puts.get() == 0, "free of frames no allocation holds releases nothing");
            vassert!("C20", unknown == 1, "free of an unknown block is counted");
        }
        Some(a) => {
            let b = model[a];
            vassert!("C20", mock.puts.get() == 1, "exactly one free is issued for a traced free");
            vassert!("C20", mock.put_order.get() == k, "the free uses the traced order");
            vassert!("C20", mock.put_frame.get() == b.frame + (pfn - a), "the free releases exactly the frames of the traced block");
            for q in 0..N {
                let e = table[q];
                if q >= a && q < a + (1 << b.order) && q % (1 << k) == 0 {
                    if q == pfn {
                        vassert!("C20", !e.present(), "the freed part is no longer held");
                    } else {
                        vassert!("C20", e.present() && e.order() == k && e.frame().0 == b.frame + (q - a), "remaining parts stay held with their own frames");
                    }
                } else if !(q >= a && q < a + (1 << b.order)) {
                    vassert!("C20", e.present() == model[q].present && (!e.present() || (e.order() == model[q].order && e.frame().0 == model[q].frame)), "other allocations are untouched");
                }
            }
        }
    }
}

fn alloc_event<const N: usize, const MO: usize>() {
    let (mut table, model) = any_table::<N, MO>();
    let pfn: usize = kani::any();
    let k: usize = kani::any();
    kani::assume(k <= MO && pfn < N && pfn % (1 << k) == 0);
    let frame: usize = kani::any();
    kani::assume(frame < (1 << 20) && frame % (1 << k) == 0);
    let entry = ParsedEntry { alloc: true, pfn: pfn as u32, cpuid: kani::any(), order: k as u8, flags: kani::any(), time: 0.0, pid: kani::any() };
    let mock = Mock { next: Cell::new(frame), gets: Cell::new(0), puts: Cell::new(0), put_frame: Cell::new(0), put_order: Cell::new(0) };
    let request = |order: usize, _gfp: u32, _core: usize, _pid: usize| Request::new(order, Class(0), None);
    let (mut reallocs, mut unknown) = (0usize, 0usize);
    step(&mock, &mut table, entry, &request, &mut reallocs, &mut unknown);
    vassert!("C20", mock.gets.get() == 1 && mock.puts.get() == 0, "an allocation event allocates once and frees nothing");
    let e = table[pfn];
    vassert!("C20", e.present() && e.order() == k && e.frame().0 == frame, "the table records the frame the allocator returned for the traced block");
    for q in 0..N {
        if q != pfn {
            let e = table[q];
            vassert!("C20", e.present() == model[q].present && (!e.present() || (e.order() == model[q].order && e.frame().0 == model[q].frame)), "other table entries are untouched");
        }
    }
}

// @h props=C20 tier=quick geom=4 panics=C20 mem=C18
#[kani::proof]
#[kani::unwind(14)]
fn c20_free_event_8() {
    free_event::<8, 3>()
}
#[kani::proof]
#[kani::unwind(14)]
fn c20_alloc_event_8() {
    alloc_event::<8, 3>()
}
// @h props=C20 tier=thorough geom=4 panics=C20 mem=C18
#[kani::proof]
#[kani::unwind(18)]
fn c20_free_event_16() {
    free_event::<16, 4>()
}
#[kani::proof]
#[kani::unwind(18)]
fn c20_alloc_event_16() {
    alloc_event::<16, 4>()
}
