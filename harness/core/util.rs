//! Harnesses for core/src/util.rs: SortedBuffer (C16), align helpers, OffsetSlice (C18).
#![allow(dead_code, unused_imports)]
use super::*;
use crate::verif_support::*;
use crate::{Policy, TreeId};

type Key = (Policy, bool);
type Elem = OrdBy<Key, TreeId>;

/// Symbolic rating as produced by `Trees::search_best` (never `Invalid`, never a perfect match).
fn any_key() -> Key {
    let p = match kani::any::<u8>() % 3 {
        0 => {
            let m: u8 = kani::any();
            kani::assume(m < 4); // small rating domain (ratings only matter through their order)
            Policy::Match(m)
        }
        1 => Policy::Demote,
        _ => Policy::Steal,
    };
    (p, kani::any())
}
/// Order-preserving rank of a rating (reference for the derived `Ord` of `(Policy, bool)`).
fn rank(k: Key) -> u32 {
    let p = match k.0 {
        Policy::Match(m) => m as u32,
        Policy::Demote => 256,
        Policy::Steal => 257,
        Policy::Invalid => 258,
    };
    p * 2 + k.1 as u32
}

/// Insert LEN symbolic ratings into a SortedBuffer<N>; afterwards the buffer holds the
/// min(N, LEN) highest-rated ones in ascending order.
fn sorted_buffer_body<const N: usize, const LEN: usize>() {
    let mut buf = SortedBuffer::<N, Elem>::new();
    let mut keys = [(Policy::Invalid, false); LEN];
    for i in 0..LEN {
        keys[i] = any_key();
        buf.add(OrdBy(keys[i], TreeId(i)));
    }
    let mut retained = [false; LEN];
    let mut count = 0usize;
    let mut prev: Option<u32> = None;
    for OrdBy(k, id) in buf.iter() {
        vassert!("C16", id.0 < LEN, "retained candidates were inserted");
        vassert!("C16", rank(*k) == rank(keys[id.0]), "a retained candidate keeps its rating");
        vassert!("C16", !retained[id.0], "no candidate is retained twice");
        retained[id.0] = true;
        if let Some(p) = prev {
            vassert!("C16", p <= rank(*k), "candidates are kept in ascending order (tried best first in reverse)");
        }
        prev = Some(rank(*k));
        count += 1;
    }
    vcover!("C16", count == N && LEN > N, "buffer overflowed");
    vassert!("C16", count == if LEN < N { LEN } else { N }, "as many candidates as fit are remembered");
    for i in 0..LEN {
        for j in 0..LEN {
            if !retained[i] && retained[j] {
                vassert!("C16", rank(keys[i]) <= rank(keys[j]), "only lower-rated candidates are forgotten");
            }
        }
    }
}

// @h props=C16 tier=quick geom=4 panics=C09 mem=C18
#[kani::proof]
#[kani::unwind(6)]
#[kani::stub(<[u8]>::rotate_right, crate::verif_support::rotate_right_model)]
#[kani::stub(<[u8]>::rotate_left, crate::verif_support::rotate_left_model)]
fn c16_sorted_buffer_n1_len3() {
    sorted_buffer_body::<1, 3>()
}
#[kani::proof]
#[kani::unwind(6)]
#[kani::stub(<[u8]>::rotate_right, crate::verif_support::rotate_right_model)]
#[kani::stub(<[u8]>::rotate_left, crate::verif_support::rotate_left_model)]
fn c16_sorted_buffer_n2_len4() {
    sorted_buffer_body::<2, 4>()
}
#[kani::proof]
#[kani::unwind(7)]
#[kani::stub(<[u8]>::rotate_right, crate::verif_support::rotate_right_model)]
#[kani::stub(<[u8]>::rotate_left, crate::verif_support::rotate_left_model)]
fn c16_sorted_buffer_n3_len5() {
    sorted_buffer_body::<3, 5>()
}
// @h props=C16 tier=thorough geom=4 panics=C09 mem=C18
#[kani::proof]
#[kani::unwind(11)]
#[kani::stub(<[u8]>::rotate_right, crate::verif_support::rotate_right_model)]
#[kani::stub(<[u8]>::rotate_left, crate::verif_support::rotate_left_model)]
fn c16_sorted_buffer_n8_len10() {
    sorted_buffer_body::<8, 10>()
}
#[kani::proof]
#[kani::unwind(10)]
#[kani::stub(<[u8]>::rotate_right, crate::verif_support::rotate_right_model)]
#[kani::stub(<[u8]>::rotate_left, crate::verif_support::rotate_left_model)]
fn c16_sorted_buffer_n4_len8() {
    sorted_buffer_body::<4, 8>()
}

/// The rotate models agree with the real `rotate_right(1)` / `rotate_left(1)` (concrete length,
/// symbolic contents) — justification of the cut used by every harness that reaches
/// `SortedBuffer::add`.
// @h props=C16 tier=quick geom=4 panics=- mem=-
#[kani::proof]
#[kani::unwind(10)]
fn c16_rotate_models_agree() {
    let a: [u8; 5] = kani::any();
    let mut r = a;
    let mut m = a;
    r[1..5].rotate_right(1);
    rotate_right_model(&mut m[1..5], 1);
    vassert!("C16", r[0] == m[0] && r[1] == m[1] && r[2] == m[2] && r[3] == m[3] && r[4] == m[4], "rotate_right(1) model equals core's rotate_right(1)");
    let mut r = a;
    let mut m = a;
    r[0..4].rotate_left(1);
    rotate_left_model(&mut m[0..4], 1);
    vassert!("C16", r[0] == m[0] && r[1] == m[1] && r[2] == m[2] && r[3] == m[3] && r[4] == m[4], "rotate_left(1) model equals core's rotate_left(1)");
}
