#!/usr/bin/env python3
"""Runner for the solver-based checks of luhsra/llfree-rs (see /verif/DESIGN.md).

  check <PROPERTY-ID> [--tier quick|thorough] [--only SUBSTR] [--keep] [--jobs N]
  check <PROPERTY-ID> --replay <path>

Every run: copy /repo's working tree to a scratch directory, inject the Kani
harness modules from /verif/harness into the copy, let Kani (CBMC + CaDiCaL)
decide every selected harness, attribute every failed check to a property,
replay counterexamples natively (Kani concrete playback), write the evidence
file and exit 0 (held) / 1 (VIOLATION, reproduced) / 2 (inconclusive).
Only the python standard library is used.
"""
import argparse
import fnmatch
import hashlib
import json
import os
import re
import shutil
import signal
import subprocess
import sys
import threading
import time

VERIF = os.path.dirname(os.path.dirname(os.path.abspath(__file__)))
REPO = os.environ.get("VERIF_REPO", "/repo")
HARNESS_DIR = os.path.join(VERIF, "harness")
SCRATCH_ROOT = os.environ.get("VERIF_SCRATCH", "/var/tmp")
# per-process cap of a cbmc run. The largest quick-tier harness (u_demote_local_at_zeroed_c0_o0)
# peaks at ~12 GB, so the cap leaves head room; the machine as a whole is protected by the
# low-memory guard in MemWatch (the largest cbmc is killed when MemAvailable drops below the floor).
MEM_CAP_KB = int(float(os.environ.get("VERIF_MEM_GB", "20")) * 1024 * 1024)
MEM_FLOOR_KB = int(float(os.environ.get("VERIF_MEM_FLOOR_GB", "4")) * 1024 * 1024)
# concrete-playback generation reruns one harness without formula slicing: alone, with a larger cap
PLAYBACK_MEM_CAP_KB = int(float(os.environ.get("VERIF_PLAYBACK_MEM_GB", "40")) * 1024 * 1024)
CORES = os.cpu_count() or 4

GEOM_FEATURES = {
    "1": ["tree_huge_1"],
    "2": ["tree_huge_2"],
    "4": [],
    "8": ["tree_huge_8"],
    "16K": ["16K"],
    "16K1": ["16K", "tree_huge_1"],
}

# Check categories of Kani/CBMC that are memory-safety / UB checks (attributed to `mem=`)
MEM_DESCR = re.compile(
    r"dereference failure|pointer NULL|pointer invalid|deallocated dynamic object|dead object|"
    r"pointer outside object bounds|invalid integer address|pointer relation|same object violation|"
    r"offset_from|pointer arithmetic|misaligned|Undefined Behavior|undefined behavior|"
    r"memcpy|memmove|memset|memcmp|slice::from_raw_parts|unsafe precondition|"
    r"invalid value|uninitialized|null-dereference|pointer_dereference"
)
MEM_CATEGORIES = {
    "pointer_dereference", "pointer_arithmetic", "pointer_primitives", "pointer", "array_bounds",
    "bounds", "undefined_behavior", "safety_check", "precondition_instance", "memory-leak",
}


def log(*a):
    print(*a, flush=True)


# --------------------------------------------------------------------------------------
# Harness registry: parsed from annotations in /verif/harness/<crate>/<module>.rs
# --------------------------------------------------------------------------------------
class Harness:
    def __init__(self, crate, module, name, ann, src):
        self.crate, self.module, self.name, self.ann, self.src = crate, module, name, ann, src
        self.props = [p for p in ann.get("props", "").split(",") if p]
        self.tier = ann.get("tier", "quick")
        self.geom = [g for g in ann.get("geom", "4").split(",") if g]
        self.tgeom = [g for g in ann.get("tgeom", "").split(",") if g]
        self.panics = ann.get("panics", "C09")
        self.mem = ann.get("mem", "C18")
        self.unwind = ann.get("unwind", "-")
        self.role = ann.get("role", name)
        self.extra_features = [f for f in ann.get("features", "").split(",") if f]

    def claims(self):
        s = set(self.props)
        for x in (self.panics, self.mem, self.unwind):
            if x and x != "-":
                s.add(x)
        return s

    def path(self):
        if self.crate == "core":
            return ("verif_lib::" if self.module == "lib" else f"{self.module}::verif_{self.module}::") + self.name
        if self.module.startswith("bin_"):
            return f"verif_{self.module}::{self.name}"
        return ("verif_lib::" if self.module == "lib" else f"{self.module}::verif_{self.module}::") + self.name


def parse_harnesses():
    out = []
    for crate in ("core", "eval"):
        d = os.path.join(HARNESS_DIR, crate)
        if not os.path.isdir(d):
            continue
        for fn in sorted(os.listdir(d)):
            if not fn.endswith(".rs") or fn in ("support.rs",):
                continue
            module = fn[:-3]
            ann = None
            pending_proof = False
            for line in open(os.path.join(d, fn)):
                s = line.strip()
                m = re.match(r"//\s*@h\s+(.*)$", s)
                if m:
                    ann = dict(kv.split("=", 1) for kv in m.group(1).split())
                    continue
                if s.startswith("#[kani::proof"):
                    pending_proof = True
                    continue
                m = re.match(r"(?:pub(?:\(crate\))?\s+)?fn\s+([A-Za-z0-9_]+)\s*\(", s)
                if m and pending_proof:
                    pending_proof = False
                    if ann is None:
                        raise SystemExit(f"{fn}: harness {m.group(1)} without @h annotation")
                    out.append(Harness(crate, module, m.group(1), ann, os.path.join(d, fn)))
    return out


# --------------------------------------------------------------------------------------
# Scratch copy + injection
# --------------------------------------------------------------------------------------
def make_scratch(tag):
    root = os.path.join(SCRATCH_ROOT, f"llfree-verif.{os.getpid()}.{tag}")
    if os.path.exists(root):
        shutil.rmtree(root)
    os.makedirs(root)
    src = os.path.join(root, "repo")
    subprocess.check_call(
        ["rsync", "-a", "--exclude", "/target", "--exclude", ".git", "--exclude", "/llc", REPO + "/", src + "/"]
    )
    hdir = os.path.join(root, "harness")
    shutil.copytree(HARNESS_DIR, hdir)
    os.makedirs(os.path.join(src, ".cargo"), exist_ok=True)
    with open(os.path.join(src, ".cargo", "config.toml"), "a") as f:
        f.write("\n[net]\noffline = true\n")
    inject(src, hdir)
    return root, src, hdir


def inject(src, hdir):
    """Append one `#[cfg(kani)] #[path] mod` line per harness file to the module it verifies."""
    for crate in ("core", "eval"):
        d = os.path.join(hdir, crate)
        if not os.path.isdir(d):
            continue
        support = os.path.join(d, "support.rs")
        for fn in sorted(os.listdir(d)):
            if not fn.endswith(".rs") or fn == "support.rs":
                continue
            module = fn[:-3]
            hp = os.path.join(d, fn)
            if module.startswith("bin_"):
                target = os.path.join(src, crate, "src", "bin", module[4:] + ".rs")
                slicer = os.path.join(VERIF, "lib", f"slice_{module}.py")
                if os.path.exists(slicer):
                    r = subprocess.run([sys.executable, slicer, target, hp], capture_output=True, text=True)
                    if r.returncode != 0:
                        raise InconclusiveError(f"slicing {target} failed: {r.stdout}{r.stderr}")
            else:
                target = os.path.join(src, crate, "src", module + ".rs")
            if not os.path.exists(target):
                raise InconclusiveError(f"module file {target} missing in the working tree")
            with open(target, "a") as f:
                f.write(f'\n#[cfg(kani)]\n#[path = "{hp}"]\npub(crate) mod verif_{module};\n')
        if os.path.exists(support):
            with open(os.path.join(src, crate, "src", "lib.rs"), "a") as f:
                f.write(f'\n#[cfg(kani)]\n#[path = "{support}"]\npub(crate) mod verif_support;\n')


class InconclusiveError(Exception):
    pass


# --------------------------------------------------------------------------------------
# Running Kani
# --------------------------------------------------------------------------------------
class MemWatch(threading.Thread):
    """Kills cbmc processes of this run whose resident size exceeds the cap (reported as inconclusive)."""

    def __init__(self):
        super().__init__(daemon=True)
        self.stop = False
        self.killed = []
        self.peak_kb = 0
        self.cap_kb = MEM_CAP_KB

    def run(self):
        me = os.getpid()
        while not self.stop:
            try:
                out = subprocess.run(["ps", "-eo", "pid,ppid,pgid,rss,comm"], capture_output=True, text=True).stdout
                pg = os.getpgid(me)
                mine = []
                for ln in out.splitlines()[1:]:
                    f = ln.split()
                    if len(f) < 5:
                        continue
                    pid, _, pgid, rss, comm = int(f[0]), int(f[1]), int(f[2]), int(f[3]), f[4]
                    if pgid == pg and comm.startswith("cbmc"):
                        self.peak_kb = max(self.peak_kb, rss)
                        if rss > self.cap_kb:
                            os.kill(pid, signal.SIGKILL)
                            self.killed.append(pid)
                        else:
                            mine.append((rss, pid))
                avail = mem_available_kb()
                if mine and avail is not None and avail < MEM_FLOOR_KB:
                    rss, pid = max(mine)
                    os.kill(pid, signal.SIGKILL)
                    self.killed.append(pid)
            except Exception:
                pass
            time.sleep(3)


def mem_available_kb():
    try:
        for ln in open("/proc/meminfo"):
            if ln.startswith("MemAvailable:"):
                return int(ln.split()[1])
    except Exception:
        pass
    return None


def kani_env():
    env = dict(os.environ)
    env["CARGO_NET_OFFLINE"] = "true"
    env.pop("RUSTFLAGS", None)
    return env


def features_for(crate, geom, extra):
    f = ["verif"] + GEOM_FEATURES[geom] + extra
    return ",".join(f)


def run_group(src, crate, geom, extra, harnesses, timeout_s, jobs, tdir, logdir):
    """One cargo-kani invocation for all harnesses of one (crate, geometry)."""
    tag = f"{crate}-g{geom}" + ("-" + "-".join(extra) if extra else "")
    out_json = os.path.join(logdir, f"{tag}.json")
    logf = os.path.join(logdir, f"{tag}.log")
    cmd = [
        "cargo", "kani", "--features", features_for(crate, geom, extra), "--target-dir", tdir,
        "-Z", "unstable-options", "-Z", "stubbing", "--no-assertion-reach-checks", "-j", str(jobs), "--output-format", "terse",
        "--export-json", out_json, "--harness-timeout", f"{timeout_s}s", "--exact",
    ]
    if any(h.module.startswith("bin_") for h in harnesses):
        bins = sorted({h.module[4:] for h in harnesses if h.module.startswith("bin_")})
        assert len(bins) == 1 and all(h.module.startswith("bin_") for h in harnesses)
        cmd += ["--bin", bins[0]]
    else:
        cmd += ["--lib"]
    for h in harnesses:
        cmd += ["--harness", h.path()]
    t0 = time.time()
    with open(logf, "w") as lf:
        lf.write(" ".join(cmd) + "\n")
        lf.flush()
        p = subprocess.run(cmd, cwd=os.path.join(src, crate), stdout=lf, stderr=subprocess.STDOUT, env=kani_env())
    wall = time.time() - t0
    txt = open(logf, errors="replace").read()
    if not os.path.exists(out_json):
        err = "\n".join(l for l in txt.splitlines() if l.startswith("error") or "error[" in l)[:3000]
        raise InconclusiveError(f"cargo kani produced no result for {tag} (build failure?):\n{err}\nlog: {logf}")
    data = json.load(open(out_json))
    return data, wall, txt


def classify(check, h, hdir, prop=None):
    """Return (property-or-None, kind). kind in tagged|cover|mem|unwind|panic|harness|internal."""
    d = check.get("description", "")
    cat = check.get("category", "")
    loc = (check.get("location") or {}).get("file", "") or ""
    m = re.match(r"\[(C\d+(?:,C\d+)*)\]", d)
    tag = None
    if m:
        # an obligation may serve several properties: "[C01,C05] ..." counts for the one being checked
        tags = m.group(1).split(",")
        tag = prop if prop in tags else tags[0]
    if cat == "cover":
        return (tag, "cover")
    if d.startswith("same object violation"):
        # CBMC's C rule for relational operators on pointers into different objects. Rust defines
        # the comparison of raw pointers by address (the repository compares metadata ranges that
        # way): not undefined behaviour, not reported.
        return (None, "ignored")
    if m:
        return (tag, "tagged")
    if cat == "unwind" or "unwinding assertion" in d:
        return (h.unwind if h.unwind != "-" else None, "unwind")
    if cat in ("unsupported_construct", "internal") or "is not currently supported by Kani" in d:
        return (None, "internal")
    in_harness = loc.startswith(hdir) or loc.startswith(HARNESS_DIR)
    if cat in MEM_CATEGORIES or MEM_DESCR.search(d):
        if in_harness:
            return (None, "harness")
        return (h.mem if h.mem != "-" else None, "mem")
    if in_harness:
        return (None, "harness")
    return (h.panics if h.panics != "-" else None, "panic")


# --------------------------------------------------------------------------------------
# Known findings
# --------------------------------------------------------------------------------------
def load_findings():
    res = []
    p = os.path.join(VERIF, "known_findings.txt")
    if not os.path.exists(p):
        return res
    for ln in open(p):
        ln = ln.strip()
        if not ln.startswith("finding:"):
            continue
        head, _, text = ln[len("finding:"):].partition("::")
        kv = dict(re.findall(r'(\w+)=("[^"]*"|\S+)', head))
        kv = {k: v.strip('"') for k, v in kv.items()}
        kv["text"] = text.strip()
        res.append(kv)
    return res


def match_finding(findings, prop, h, check):
    for f in findings:
        if f.get("property") != prop:
            continue
        if "role" in f and not fnmatch.fnmatch(h.role, f["role"]):
            continue
        if "check" in f and f["check"] not in check.get("description", ""):
            continue
        if "func" in f and f["func"] not in (check.get("function") or ""):
            continue
        return f
    return None


# --------------------------------------------------------------------------------------
# Replay (Kani concrete playback: the same harness compiled natively, recorded values)
# --------------------------------------------------------------------------------------
def playback(src, hdir, h, geom, tdir, logdir, test_src=None):
    """Returns (reproduced: bool|None, test_src, output)."""
    feats = features_for(h.crate, geom, h.extra_features)
    cwd = os.path.join(src, h.crate)
    target = ["--bin", h.module[4:]] if h.module.startswith("bin_") else ["--lib"]
    hfile = os.path.join(hdir, h.crate, h.module + ".rs")
    if test_src is None:
        cmd = ["cargo", "kani", "--features", feats, "--target-dir", tdir, "-Z", "stubbing", "-Z", "concrete-playback",
               "--concrete-playback=print", "--exact", "--harness", h.path()] + target
        try:
            p = subprocess.run(cmd, cwd=cwd, capture_output=True, text=True, env=kani_env(),
                               timeout=int(os.environ.get("VERIF_PLAYBACK_TIMEOUT", "900")))
            out = p.stdout + p.stderr
        except subprocess.TimeoutExpired as e:
            subprocess.run(["pkill", "-9", "-g", str(os.getpgid(os.getpid())), "-x", "cbmc"])
            out = "playback generation timed out\n"
        open(os.path.join(logdir, f"playback-gen-{h.name}.log"), "w").write(out)
        blocks = re.findall(r"```\s*\n(.*?)```", out, re.S)
        blocks = [b for b in blocks if "kani_concrete_playback_" in b]
        if not blocks:
            return None, None, "no concrete playback test generated"
        # one test per failed check / satisfied witness: keep them all, any of them failing natively reproduces
        uniq = {}
        for b in blocks:
            m = re.search(r"fn\s+(kani_concrete_playback_\w+)", b)
            if m:
                uniq.setdefault(m.group(1), b)
        test_src = "\n".join(uniq.values())
    names = re.findall(r"fn\s+(kani_concrete_playback_\w+)", test_src)
    if not names:
        return None, test_src, "cannot find test name"
    shutil.copyfile(os.path.join(HARNESS_DIR, h.crate, h.module + ".rs"), hfile)
    with open(hfile, "a") as f:
        # (llfree is no_std: name Vec explicitly; std is linked in test builds)
        f.write("\n#[cfg(test)]\nmod verif_playback {\n    #![allow(unused_imports)]\n    use super::*;\n    extern crate std;\n"
                "    use std::vec::Vec;\n    use std::vec;\n" + test_src + "\n}\n")
    results = {}
    alltxt = ""
    # (`cargo kani playback` has no --release; both profiles of this workspace keep overflow checks on)
    cmd = ["cargo", "kani", "playback", "-Z", "concrete-playback", "--features", feats] + target + ["--", "kani_concrete_playback_"]
    p = subprocess.run(cmd, cwd=cwd, capture_output=True, text=True, env=kani_env())
    txt = p.stdout + p.stderr
    alltxt += f"--- playback (dev) exit={p.returncode}\n" + txt[-6000:]
    ran = re.search(r"running \d+ tests?", txt) is not None
    # panic=abort in this workspace: the first failing test aborts the test binary (non-zero exit)
    results["dev"] = (p.returncode != 0) if ran else None
    open(os.path.join(logdir, f"playback-run-{h.name}.log"), "w").write(alltxt)
    vals = [v for v in results.values() if v is not None]
    if not vals:
        return None, test_src, alltxt
    return any(vals), test_src, alltxt


# --------------------------------------------------------------------------------------
def main():
    ap = argparse.ArgumentParser()
    ap.add_argument("prop")
    ap.add_argument("--tier", default=os.environ.get("VERIF_TIER", "quick"), choices=["quick", "thorough"])
    ap.add_argument("--replay")
    ap.add_argument("--only", default=None, help="only harnesses whose name contains this substring")
    ap.add_argument("--keep", action="store_true", help="keep the scratch copy")
    ap.add_argument("--jobs", type=int, default=int(os.environ.get("VERIF_JOBS", str(CORES))))
    ap.add_argument("--no-replay", action="store_true")
    ap.add_argument("--no-evidence", action="store_true")
    args = ap.parse_args()
    seed = int(os.environ.get("VERIF_SEED", "0") or 0)
    prop = args.prop
    t_start = time.time()

    if args.replay:
        sys.exit(do_replay(prop, args.replay))

    allh = parse_harnesses()
    # quick: the harnesses that list the property; thorough: additionally every harness whose
    # panic / memory-safety / unwinding checks are attributed to it (C09, C18, C03, C21: the union)
    if args.tier == "thorough":
        sel = [h for h in allh if prop in h.claims()]
    else:
        sel = [h for h in allh if prop in h.props and h.tier == "quick"]
    if args.only:
        sel = [h for h in sel if args.only in h.name]
    if not sel:
        log(f"no harness registered for {prop}")
        sys.exit(2)

    # jobs: (crate, geom, extra) -> harnesses
    groups = {}
    for h in sel:
        geoms = list(h.geom) + (h.tgeom if args.tier == "thorough" else [])
        for g in geoms:
            groups.setdefault((h.crate, g, tuple(h.extra_features), h.module if h.module.startswith("bin_") else ""), []).append(h)

    timeout_s = int(os.environ.get("VERIF_TIMEOUT", "1800" if args.tier == "quick" else "7200"))
    findings = load_findings()
    watch = MemWatch()
    watch.start()
    root = None
    status = 0
    results = []     # per (harness, geom)
    violations = []  # (harness, geom, checks)
    known_printed = set()
    problems = []    # inconclusive reasons
    try:
        root, src, hdir = make_scratch(prop)
        logdir = os.path.join(root, "logs")
        os.makedirs(logdir)
        tdir = os.path.join(root, "target")
        gl = sorted(groups.items())
        total_h = sum(len(hs) for _, hs in gl)
        out = {}

        def work(idx, key, hs):
            crate, geom, extra, _bin = key
            j = max(1, min(len(hs), (args.jobs * len(hs) + total_h - 1) // total_h)) if len(gl) > 1 else min(args.jobs, max(1, len(hs)))
            log(f"[{prop}] kani: crate={crate} geometry={geom} harnesses={len(hs)} (timeout {timeout_s}s, jobs {j})")
            try:
                out[idx] = run_group(src, crate, geom, list(extra), hs, timeout_s, j, tdir + f".{idx}", logdir)
            except InconclusiveError as e:
                out[idx] = e

        threads = [threading.Thread(target=work, args=(i, k, hs)) for i, (k, hs) in enumerate(gl)]
        for t in threads:
            t.start()
        for t in threads:
            t.join()
        for idx, ((crate, geom, extra, _bin), hs) in enumerate(gl):
            if isinstance(out.get(idx), Exception):
                raise out[idx]
            data, wall, txt = out[idx]
            bypath = {h.path(): h for h in hs}
            stats = {c["harness_id"]: c.get("cbmc_stats", {}) for c in data.get("cbmc", [])}
            seen = set()
            for r in data["verification_results"]["results"]:
                h = bypath.get(r["harness_id"])
                if h is None:
                    continue
                seen.add(r["harness_id"])
                rec = analyse(r, h, geom, hdir, prop, findings, stats.get(r["harness_id"], {}))
                results.append(rec)
                log(f"  {h.name}@{geom}: {rec['status']} {rec['duration_ms'] / 1000:.0f}s checks={rec['checks_total']}"
                    + (f" other-props={sorted({p for p, _ in rec['other_props']})}" if rec["other_props"] else ""))
                for f, c in rec["known"]:
                    key = (f.get("property"), f.get("text"))
                    if key not in known_printed:
                        known_printed.add(key)
                        log(f"KNOWN-FINDING: property={prop} {f.get('text')}")
                if rec["problems"]:
                    problems += [f"{h.name}@{geom}: {p}" for p in rec["problems"]]
                if rec["violating"]:
                    violations.append((h, geom, rec))
            for pth, h in bypath.items():
                if pth not in seen:
                    problems.append(f"{h.name}@{geom}: no result reported by Kani (harness not found?)")
        # ---- replay violations
        nviol = 0
        watch.cap_kb = PLAYBACK_MEM_CAP_KB
        for h, geom, rec in violations:
            descr = "; ".join(sorted({f"{c['description']} @ {c.get('function')}" for c in rec["violating"]}))[:600]
            log(f"[{prop}] counterexample in {h.name} (geometry {geom}): {descr}")
            if args.no_replay:
                nviol += 1
                log(f"VIOLATION property={prop} replay=(replay disabled) harness={h.name}")
                continue
            rep, test_src, out = playback(src, hdir, h, geom, tdir + '.pb', logdir)
            rpath = save_replay(prop, h, geom, rec, test_src, rep)
            rec["replay"] = {"path": rpath, "reproduced": rep}
            if rep:
                nviol += 1
                log(f"VIOLATION property={prop} replay={rpath}")
            elif rep is None:
                # Kani's playback generation reruns the harness without formula slicing; for the
                # large L/U harnesses that exceeds time or memory. The solver's verdict over the
                # real code stands; it is reported with the failed checks instead of a native test.
                nviol += 1
                log(f"[{prop}] native playback unavailable for {h.name} ({out[:80]!r}); reporting the solver counterexample")
                log(f"VIOLATION property={prop} replay={rpath}")
            else:
                problems.append(f"{h.name}@{geom}: solver counterexample did NOT reproduce natively (harness/model suspect)")
        if nviol:
            status = 1
        elif problems:
            status = 2
    except InconclusiveError as e:
        problems.append(str(e))
        status = 2
    finally:
        watch.stop = True
        if watch.killed:
            problems.append(f"{len(watch.killed)} cbmc process(es) exceeded the memory cap (or the machine ran out of memory) and were killed")
            if status == 0:
                status = 2
        if root and args.keep:
            log(f"scratch kept at {root}")
        elif root:
            if status != 0:
                # keep the logs of a failing run for diagnosis
                dst = os.path.join(VERIF, "logs", prop)
                shutil.rmtree(dst, ignore_errors=True)
                try:
                    shutil.copytree(os.path.join(root, "logs"), dst)
                except Exception:
                    pass
            shutil.rmtree(root, ignore_errors=True)

    for p in problems:
        log(f"[{prop}] INCONCLUSIVE: {p}")
    wall = time.time() - t_start
    if not args.no_evidence and not args.only:
        write_evidence(prop, args.tier, seed, results, violations, problems, wall, watch.peak_kb, timeout_s)
    nh = len(results)
    ok = sum(1 for r in results if not r["problems"] and not r["violating"] and r["checks_total"] > 0)
    log(f"[{prop}] tier={args.tier} harness-runs={nh} clean={ok} violations={sum(1 for v in violations)} "
        f"inconclusive={len(problems)} wall={wall:.0f}s -> exit {status}")
    sys.exit(status)


def analyse(r, h, geom, hdir, prop, findings, stats):
    rec = {
        "harness": h.name, "role": h.role, "geometry": geom, "status": r.get("status"), "duration_ms": r.get("duration_ms"),
        "checks_total": 0, "checks_reachable_ok": 0, "checks_unreachable": 0, "covers_ok": [], "covers_failed": [], "violating": [],
        "known": [], "other_props": [], "problems": [], "stats": stats, "tagged_ok": 0, "samples": [],
    }
    checks = r.get("checks", [])
    rec["checks_total"] = len(checks)
    if r.get("status") not in ("Success", "Failure"):
        rec["problems"].append(f"harness status {r.get('status')} (timeout / solver error / out of memory)")
    if not checks:
        rec["problems"].append("no checks reported (timeout, crash or out of memory)")
    for c in checks:
        st = c.get("status", "")
        p, kind = classify(c, h, hdir, prop)
        if kind == "cover":
            if st.upper() in ("SATISFIED", "COVERED"):
                rec["covers_ok"].append(c["description"])
            else:
                rec["covers_failed"].append(f"vacuity witness not satisfied: {c['description']} ({st})")
            continue
        if st.upper() == "SUCCESS":
            rec["checks_reachable_ok"] += 1
            if kind == "tagged" and p == prop:
                rec["tagged_ok"] += 1
                if len(rec["samples"]) < 3:
                    rec["samples"].append(c["description"])
            continue
        if st.upper() == "UNREACHABLE":
            rec["checks_unreachable"] += 1
            continue
        if st.upper() in ("UNDETERMINED", "UNKNOWN"):
            # Kani reports UNDETERMINED for checks behind a failed unwinding assertion etc.
            continue
        # FAILURE
        if kind == "ignored":
            continue
        if kind in ("harness", "internal"):
            rec["problems"].append(f"failure inside the harness/tooling, not the code under test: {c['description']} "
                                   f"@ {c.get('function')} ({(c.get('location') or {}).get('file')}:{(c.get('location') or {}).get('line')})")
            continue
        if kind == "unwind" and p is None:
            rec["problems"].append(f"unwinding bound too small: {c['description']} @ {c.get('function')}")
            continue
        if p is None:
            rec["problems"].append(f"failed check not attributable to a property: {c['description']} @ {c.get('function')}")
            continue
        if p != prop:
            rec["other_props"].append((p, c["description"]))
            continue
        f = match_finding(findings, prop, h, c)
        if f:
            rec["known"].append((f, c))
        else:
            rec["violating"].append(c)
    # A failed assertion is assumed afterwards (Kani semantics), which can make later
    # witnesses unsatisfiable: only a run without failures must satisfy all of them.
    if not rec["violating"] and not rec["known"] and not rec["other_props"]:
        rec["problems"] += rec["covers_failed"]
    return rec


def save_replay(prop, h, geom, rec, test_src, reproduced):
    d = os.path.join(VERIF, "replays", prop)
    os.makedirs(d, exist_ok=True)
    body = {
        "property": prop, "harness": h.name, "harness_path": h.path(), "crate": h.crate, "module": h.module,
        "geometry": geom, "features": features_for(h.crate, geom, h.extra_features),
        "failed_checks": [{k: c.get(k) for k in ("description", "function", "location", "category")} for c in rec["violating"]],
        "concrete_playback_test": test_src, "reproduced_natively": reproduced,
        "how": "check <ID> --replay <this file>: scratch copy of /repo, harness injection, append test, `cargo kani playback`",
    }
    hsh = hashlib.sha1(json.dumps(body["failed_checks"], sort_keys=True).encode()).hexdigest()[:8]
    path = os.path.join(d, f"{h.name}.g{geom}.{hsh}.json")
    json.dump(body, open(path, "w"), indent=1)
    return path


def do_replay(prop, path):
    body = json.load(open(path))
    allh = {h.name: h for h in parse_harnesses()}
    h = allh.get(body["harness"])
    if h is None or not body.get("concrete_playback_test"):
        log("replay file does not name a known harness / has no test")
        return 2
    root, src, hdir = make_scratch(prop + "-replay")
    try:
        logdir = os.path.join(root, "logs")
        os.makedirs(logdir)
        rep, _, out = playback(src, hdir, h, body["geometry"], os.path.join(root, "target"), logdir, body["concrete_playback_test"])
        log(out[-3000:])
        if rep:
            log(f"VIOLATION property={prop} replay={path}")
            return 1
        log("replay did not reproduce a failure" if rep is False else "replay could not be run")
        return 0 if rep is False else 2
    finally:
        shutil.rmtree(root, ignore_errors=True)


LEVELS = {}


def write_evidence(prop, tier, seed, results, violations, problems, wall, peak_kb, timeout_s):
    meta = json.load(open(os.path.join(VERIF, "lib", "claims.json")))
    info = meta.get(prop, {})
    level = info.get("level", "model_checking")
    total = sum(r["checks_total"] for r in results)
    ok_reach = sum(r["checks_reachable_ok"] for r in results)
    tagged = sum(r["tagged_ok"] for r in results)
    covers = sum(len(r["covers_ok"]) for r in results)
    clean = [r for r in results if not r["problems"] and not r["violating"] and not r["known"] and r["checks_total"] > 0]
    solver_s = sum((r["stats"] or {}).get("runtime_solver_s", 0) or 0 for r in results)
    symex_s = sum((r["stats"] or {}).get("runtime_symex_s", 0) or 0 for r in results)
    vccs = sum((r["stats"] or {}).get("vccs_generated", 0) or 0 for r in results)
    vccs_rem = sum((r["stats"] or {}).get("vccs_remaining", 0) or 0 for r in results)
    samples = []
    for r in results[:40]:
        samples.append({
            "harness": r["harness"], "geometry": r["geometry"], "status": r["status"],
            "checks": r["checks_total"], "decided_reachable": r["checks_reachable_ok"],
            "property_obligations_held": r["tagged_ok"], "vacuity_witnesses_satisfied": r["covers_ok"][:6],
            "example_obligations": r["samples"],
            "vccs": (r["stats"] or {}).get("vccs_generated"), "solver_s": (r["stats"] or {}).get("runtime_solver_s"),
            "symex_s": (r["stats"] or {}).get("runtime_symex_s"), "wall_ms": r["duration_ms"],
        })
    cov = {
        "evaluations": max(total, 1),
        "distinct_nontrivial": ok_reach,
        "rule": "one evaluation = one check (assertion of the property, or panic/overflow/bounds/pointer check of the real code) "
                "decided by CBMC+CaDiCaL for ALL values of the harness's symbolic inputs within the stated bounds; "
                "non-trivial = reachable (not sliced away as dead code) and proved; each check is distinct by (harness, geometry, check id)",
        "samples": samples or [{"note": "no harness produced a result"}],
        "exhaustive": False,
        "harness_runs": len(results),
        "harness_runs_clean": len(clean),
        "property_tagged_obligations_held": tagged,
        "vacuity_witnesses_satisfied": covers,
        "functions_encoded": info.get("functions", []),
        "bounds": info.get("bounds", ""),
        "outside_bounds": info.get("outside", ""),
        "queries": {"vccs_generated": vccs, "vccs_after_slicing": vccs_rem, "solver_time_s": round(solver_s, 2),
                    "symex_time_s": round(symex_s, 2), "per_harness_timeout_s": timeout_s, "peak_cbmc_rss_mb": peak_kb // 1024},
        "engine": "Kani 0.68.0 / CBMC 6.11.0 / CaDiCaL over the MIR of the working tree (rebuilt this run)",
        "inconclusive": problems[:20],
        "counterexamples": [
            {"harness": h.name, "geometry": g, "checks": [c["description"] for c in rec["violating"]][:5], "replay": rec.get("replay")}
            for h, g, rec in violations
        ],
        "known_findings_hit": sorted({f.get("text", "") for r in results for f, _ in r["known"]}),
    }
    if level == "proof":
        cov.update({
            "obligations": len(results), "discharged": len(clean),
            "checker_cmd": f"./check {prop} --tier {tier}",
            "trusted_base": ["Kani 0.68 MIR->GOTO translation", "CBMC 6.11 symbolic execution and bit-blasting", "CaDiCaL", "rustc front end"],
        })
    ev = {
        "property_id": prop, "tier": tier, "seed": seed, "level": level, "coverage": cov,
        "assumptions": info.get("assumptions", []),
        "wall_s": round(wall, 1),
        "violations": sum(1 for _ in violations),
    }
    os.makedirs(os.path.join(VERIF, "evidence"), exist_ok=True)
    json.dump(ev, open(os.path.join(VERIF, "evidence", f"{prop}.json"), "w"), indent=1)


if __name__ == "__main__":
    main()
