//! Shared support for the Kani harnesses (injected as `crate::verif_support`, cfg(kani) only).
#![allow(dead_code, unused_macros, static_mut_refs)]

/// Property-tagged assertion: a failure is attributed to property `$p`.
macro_rules! vassert {
    // ($p may list several properties: "C01,C05")
    ($p:literal, $cond:expr, $msg:literal) => {
        kani::assert($cond, concat!("[", $p, "] ", $msg))
    };
}
/// Vacuity witness: must be satisfiable, otherwise the run is reported as broken.
macro_rules! vcover {
    ($p:literal, $cond:expr, $msg:literal) => {
        kani::cover($cond, concat!("[", $p, "] cover: ", $msg))
    };
}
pub(crate) use {vassert, vcover};

use crate::atomic::verif::{HOOKS, Hooks};

/// How the atomics observers behave during the call under test.
#[derive(Clone, Copy, PartialEq, Eq)]
pub enum Mode {
    /// Hooks installed but inert (used while the harness builds or inspects state).
    Off,
    /// No other thread: a CAS that follows a load of the same word cannot fail,
    /// so a retry is impossible (asserted) and retry loops need no unwinding.
    Seq,
    /// Other threads run between my atomic steps: `ENV` is invoked before every access.
    Interference,
}

pub static mut MODE: Mode = Mode::Off;
/// Number of CAS retries in the current update loop of the call under test.
pub static mut RETRIES: usize = 0;
/// Bound on CAS retries under interference (more = outside the claim, see DESIGN.md).
pub static mut MAX_RETRIES: usize = 2;
/// Number of atomic accesses by the call under test.
pub static mut STEPS: usize = 0;
/// Number of atomic writes (store / swap / successful CAS / fetch_*) by the call under test.
pub static mut WRITES: usize = 0;
/// After this many steps the environment is frozen (C21); usize::MAX = never.
pub static mut FREEZE_AT: usize = usize::MAX;
/// Steps taken after the freeze.
pub static mut STEPS_FROZEN: usize = 0;
/// Environment step (harness specific), run before each access in interference mode.
pub static mut ENV: Option<fn(*const u8, usize)> = None;
/// Observer for my own writes (harness specific): (addr, size, old, new).
pub static mut ON_WRITE: Option<fn(*const u8, usize, u64, u64)> = None;
/// Observer before every access (crash snapshots): (addr, size, is_write).
pub static mut ON_PRE: Option<fn(*const u8, usize, bool)> = None;

fn pre(addr: *const u8, size: usize, write: bool) {
    unsafe {
        if MODE == Mode::Off {
            return;
        }
        STEPS += 1;
        if !write {
            // A load starts a new update loop (load; f; CAS; retry...): the retry bound is per
            // loop. Resetting here keeps the counter concrete on every path of the loop, so the
            // bound prunes the unwinding syntactically instead of unwinding to the global bound.
            RETRIES = 0;
        }
        if MODE == Mode::Interference {
            if STEPS > FREEZE_AT {
                STEPS_FROZEN += 1;
            } else if let Some(env) = ENV {
                let m = MODE;
                MODE = Mode::Off;
                env(addr, size);
                MODE = m;
            }
        }
        if let Some(f) = ON_PRE {
            let m = MODE;
            MODE = Mode::Off;
            f(addr, size, write);
            MODE = m;
        }
    }
}
fn post(addr: *const u8, size: usize, old: u64, new: u64, ok: bool) {
    unsafe {
        if MODE == Mode::Off || !ok {
            return;
        }
        WRITES += 1;
        if let Some(f) = ON_WRITE {
            let m = MODE;
            MODE = Mode::Off;
            f(addr, size, old, new);
            MODE = m;
        }
    }
}
fn retry(_addr: *const u8) {
    unsafe {
        match MODE {
            Mode::Off => {}
            Mode::Seq => {
                // Without other threads a CAS after a load of the same word succeeds.
                kani::assert(false, "[harness] CAS retry in sequential mode");
                kani::assume(false);
            }
            Mode::Interference => {
                RETRIES += 1;
                if STEPS > FREEZE_AT {
                    // Frozen environment: any retry would be a retry "on its own".
                    kani::assert(false, "[C21] CAS retry although no other thread runs");
                }
                kani::assume(RETRIES <= MAX_RETRIES);
            }
        }
    }
}

pub fn install(mode: Mode) {
    unsafe {
        HOOKS = Some(Hooks { pre, post, retry });
        MODE = mode;
        RETRIES = 0;
        STEPS = 0;
        WRITES = 0;
        STEPS_FROZEN = 0;
    }
}
pub fn set_mode(mode: Mode) {
    unsafe { MODE = mode }
}
pub fn steps() -> usize {
    unsafe { STEPS }
}
pub fn writes() -> usize {
    unsafe { WRITES }
}

/// Model of `<[T]>::rotate_right(1)` (the only use in the crate: `SortedBuffer::add`).
/// `core::slice::rotate` with symbolic bounds does not finish symbolic execution.
pub fn rotate_right_model<T>(s: &mut [T], k: usize) {
    kani::assert(k == 1, "[harness] rotate_right model only for k == 1");
    let n = s.len();
    if n < 2 {
        return;
    }
    let mut i = n - 1;
    while i > 0 {
        s.swap(i, i - 1);
        i -= 1;
    }
}

/// Model of `<[T]>::rotate_left(1)`.
pub fn rotate_left_model<T>(s: &mut [T], k: usize) {
    kani::assert(k == 1, "[harness] rotate_left model only for k == 1");
    let n = s.len();
    let mut i = 0;
    while i + 1 < n {
        s.swap(i, i + 1);
        i += 1;
    }
}

// ---------------------------------------------------------------------------------------------
// Policies
// ---------------------------------------------------------------------------------------------
use crate::{Class, Classing, Policy, PolicyFn, TREE_FRAMES};

/// The policy of the integration test `zeroed_steals_from_huge` (three classes).
pub fn zeroed_policy(requested: Class, target: Class, free: usize) -> Policy {
    if requested.0 > target.0 {
        return Policy::Steal;
    } else if requested.0 < target.0 {
        return Policy::Demote;
    }
    match free {
        f if f >= TREE_FRAMES / 2 => Policy::Match(1),
        f if f >= TREE_FRAMES / 64 => Policy::Match(u8::MAX),
        _ => Policy::Match(0),
    }
}
/// A custom policy that declares some class pairs unusable (C13): class 0 requests cannot use
/// class-2 trees and class 3 is isolated from everything else.
pub fn custom_policy(requested: Class, target: Class, free: usize) -> Policy {
    if (requested.0 == 3) != (target.0 == 3) {
        return Policy::Invalid;
    }
    if requested.0 == 0 && target.0 == 2 {
        return Policy::Invalid;
    }
    if requested.0 > target.0 {
        Policy::Steal
    } else if requested.0 < target.0 {
        Policy::Demote
    } else if free >= TREE_FRAMES / 2 {
        Policy::Match(1)
    } else {
        Policy::Match(u8::MAX)
    }
}
/// One of the policies the repository uses (simple, movable, zeroed): the real function pointers.
pub fn any_builtin_policy() -> PolicyFn {
    match kani::any::<u8>() % 3 {
        0 => Classing::simple(1).0.policy,
        1 => Classing::movable(1).0.policy,
        _ => zeroed_policy,
    }
}
/// A built-in policy or the custom one with unusable pairs.
pub fn any_policy() -> PolicyFn {
    if kani::any() { any_builtin_policy() } else { custom_policy }
}

/// `core::hint::spin_loop` lowers to an LLVM intrinsic Kani does not model; it has no effect on
/// memory, so the model is empty.
pub fn spin_loop_model() {}
