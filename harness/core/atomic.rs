//! Harnesses for core/src/atomic.rs: the multi-word compare-exchange used for multi-huge orders.
#![allow(dead_code, unused_imports)]
use super::*;
use crate::verif_support::*;
use core::sync::atomic::Ordering::Relaxed;

/// `[Atom]::compare_exchange_all` without concurrency: all-or-nothing.
fn cxa_body<const N: usize>() {
    let a: [Atom<u16>; N] = core::array::from_fn(|_| Atom::new(kani::any()));
    let pre: [u16; N] = core::array::from_fn(|i| a[i].0.load(Relaxed));
    let cur: u16 = kani::any();
    let new: u16 = kani::any();
    install(Mode::Seq);
    let r = a.compare_exchange_all(cur, new);
    set_mode(Mode::Off);
    let mut all = true;
    for i in 0..N {
        if pre[i] != cur {
            all = false;
        }
    }
    vcover!("C02", r.is_err() && pre[0] == cur && N > 1, "later word differs: undo path");
    vassert!("C02", r.is_ok() == all, "multi-word exchange succeeds exactly when every word has the expected value");
    for i in 0..N {
        let v = a[i].0.load(Relaxed);
        vassert!("C02", v == if all { new } else { pre[i] }, "multi-word exchange is all-or-nothing");
    }
}
// @h props=C02,C01 tier=quick geom=4 panics=C09 mem=C18
#[kani::proof]
#[kani::unwind(6)]
fn a_cxa_2() {
    cxa_body::<2>()
}
#[kani::proof]
#[kani::unwind(6)]
fn a_cxa_4() {
    cxa_body::<4>()
}
