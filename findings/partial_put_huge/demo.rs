//! Native demonstration of the known finding for C03/C21 (see /verif/known_findings.txt):
//! two holders free different parts of the same whole-allocated huge frame. Thread B's whole
//! `put` runs between two atomic steps of thread A's `put` (inside the `verif` observer, right
//! before A clears the huge marker). B lost the bitfield fill, polls the marker RETRIES times
//! and panics with "Exceeding retries".
use llfree::atomic::verif::{Hooks, HOOKS};
use llfree::*;
use std::sync::atomic::{AtomicBool, AtomicPtr, Ordering};

static ALLOC: AtomicPtr<LLFree<'static>> = AtomicPtr::new(std::ptr::null_mut());
static ARMED: AtomicBool = AtomicBool::new(false);
static B_PANICKED: AtomicBool = AtomicBool::new(false);
static mut FRAME: usize = 0;

fn pre(_addr: *const u8, size: usize, write: bool) {
    // the first 16-bit write of A's put is the CAS that clears the huge marker
    if write && size == 2 && ARMED.swap(false, Ordering::SeqCst) {
        let alloc = unsafe { &*ALLOC.load(Ordering::SeqCst) };
        let f = unsafe { FRAME };
        // thread B: frees its own part (frame f+1) of the same huge frame, start to finish
        let r = std::panic::catch_unwind(|| alloc.put(FrameId(f + 1), Request::new(0, Class(0), None)));
        if r.is_err() {
            B_PANICKED.store(true, Ordering::SeqCst);
        }
    }
}
fn post(_: *const u8, _: usize, _: u64, _: u64, _: bool) {}
fn retry(_: *const u8) {}

#[test]
fn partial_put_huge_waits_for_other_holder() {
    let (classing, _) = Classing::simple(1);
    let frames = 2 * TREE_FRAMES;
    let meta = MetaData::alloc(&LLFree::metadata_size(&classing, frames));
    let alloc = Box::leak(Box::new(LLFree::new(frames, Init::FreeAll, &classing, meta).unwrap()));
    // one whole huge frame, held in parts by two callers
    let (f, _) = alloc.get(None, Request::new(HUGE_ORDER, Class(1), None)).unwrap();
    unsafe { FRAME = f.0 };
    ALLOC.store(alloc, Ordering::SeqCst);
    unsafe { HOOKS = Some(Hooks { pre, post, retry }) };
    ARMED.store(true, Ordering::SeqCst);
    // thread A: frees its part (frame f)
    let r = alloc.put(f, Request::new(0, Class(0), None));
    unsafe { HOOKS = None };
    assert!(r.is_ok());
    assert!(!B_PANICKED.load(Ordering::SeqCst), "the other holder's free of a held block panicked (Exceeding retries)");
}
