#!/usr/bin/env python3
"""Offline setup: nothing to build (harnesses are compiled per run from /repo's working tree).
Verifies that the tools the checks need are present."""
import shutil, subprocess, sys
ok = True
for t in ("cargo", "rsync", "cbmc"):
    if not shutil.which(t):
        print("missing tool:", t); ok = False
r = subprocess.run(["cargo", "kani", "--version"], capture_output=True, text=True)
print((r.stdout + r.stderr).strip())
ok = ok and r.returncode == 0
sys.exit(0 if ok else 1)
