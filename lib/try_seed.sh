#!/bin/sh
# lib/try_seed.sh <seed-dir-or-worktree> <PROP> [PROP...]
# Runs the quick checks of the given properties against a tree that has a seeded change applied
# (VERIF_REPO points the runner at that tree instead of /repo). Prints one line per property.
T="$1"; shift
for p in "$@"; do
  out=$(VERIF_REPO="$T" VERIF_PLAYBACK_TIMEOUT=${VERIF_PLAYBACK_TIMEOUT:-300} "$(dirname "$0")/../check" "$p" --no-evidence ${TIER:+--tier $TIER} 2>&1)
  code=$?
  echo "$p exit=$code $(echo "$out" | grep -E "^VIOLATION|counterexample in" | head -3 | tr '\n' ' ' | cut -c1-400)"
  echo "$out" | grep -E "INCONCLUSIVE" | head -3 | cut -c1-300
done
