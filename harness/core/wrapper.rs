//! Harnesses for core/src/wrapper.rs (C17, C08): ZoneAlloc forwarding, NvmAlloc layout.
#![allow(dead_code, unused_imports)]
use super::*;
use crate::verif_support::*;
use crate::{TreeStats, Policy};
use core::cell::Cell;

/// Recording inner allocator with arbitrary results.
#[derive(Debug)]
struct Mock {
    frames: usize,
    calls: Cell<usize>,
    last_frame: Cell<Option<usize>>,
    last_order: Cell<usize>,
    ret_frame: usize,
    ret_ok: bool,
    lower_ptr: Cell<usize>,
    lower_len: Cell<usize>,
    init: Cell<u8>,
}
unsafe impl Sync for Mock {}
unsafe impl Send for Mock {}
static mut MOCK_RET: (usize, bool) = (0, false);
static mut MOCK_LOWER_SIZE: usize = 0;
impl<'a> Alloc<'a> for Mock {
    fn name() -> &'static str {
        "mock"
    }
    fn new(frames: usize, init: Init, _c: &Classing, meta: MetaData<'a>) -> Result<Self> {
        let (ret_frame, ret_ok) = unsafe { MOCK_RET };
        Ok(Mock {
            frames,
            calls: Cell::new(0),
            last_frame: Cell::new(None),
            last_order: Cell::new(0),
            ret_frame,
            ret_ok,
            lower_ptr: Cell::new(meta.lower.as_ptr() as usize),
            lower_len: Cell::new(meta.lower.len()),
            init: Cell::new(match init {
                Init::FreeAll => 0,
                Init::AllocAll => 1,
                Init::Recover => 2,
                Init::None => 3,
            }),
        })
    }
    fn metadata_size(_c: &Classing, _frames: usize) -> MetaSize {
        MetaSize { local: 0, trees: 0, lower: unsafe { MOCK_LOWER_SIZE } }
    }
    unsafe fn metadata(&mut self) -> MetaData<'a> {
        unimplemented!()
    }
    fn get(&self, frame: Option<FrameId>, flags: Request) -> Result<(FrameId, Class)> {
        self.calls.set(self.calls.get() + 1);
        self.last_frame.set(frame.map(|f| f.0));
        self.last_order.set(flags.order);
        if self.ret_ok { Ok((FrameId(self.ret_frame), flags.class)) } else { Err(Error::Memory) }
    }
    fn put(&self, frame: FrameId, flags: Request) -> Result<()> {
        self.calls.set(self.calls.get() + 1);
        self.last_frame.set(Some(frame.0));
        self.last_order.set(flags.order);
        if self.ret_ok { Ok(()) } else { Err(Error::Memory) }
    }
    fn frames(&self) -> usize {
        self.frames
    }
    fn tree_stats(&self) -> TreeStats {
        TreeStats::default()
    }
    fn stats(&self) -> Stats {
        Stats::default()
    }
    fn stats_at(&self, frame: FrameId, order: usize) -> Stats {
        self.calls.set(self.calls.get() + 1);
        self.last_frame.set(Some(frame.0));
        self.last_order.set(order);
        Stats { free_frames: 7, free_huge: 0, free_trees: 0 }
    }
}

fn any_request() -> Request {
    let order: usize = kani::any();
    let class: u8 = kani::any();
    kani::assume(class < 8);
    Request::new(order, Class(class), if kani::any() { Some(kani::any()) } else { None })
}

// @h props=C17,C08 tier=quick geom=4 panics=C09 mem=C18
#[kani::proof]
fn c17_zone_forwarding() {
    let offset: usize = kani::any();
    let frames: usize = kani::any();
    let ret: usize = kani::any();
    // the inner allocator only returns frames it manages (C01), zones end below 2^48
    kani::assume(frames <= (1 << 40) && ret < frames && offset <= (1 << 48));
    unsafe { MOCK_RET = (ret, kani::any()) };
    let (classing, _) = Classing::simple(1);
    let meta = MetaData { local: &mut [], trees: &mut [], lower: &mut [] };
    let z = ZoneAlloc::<Mock>::create(offset, frames, Init::FreeAll, &classing, meta);
    let aligned = offset % (1 << TREE_ORDER) == 0;
    vassert!("C17", z.is_ok() == aligned, "a zone is created exactly for tree-aligned offsets");
    let Ok(z) = z else { return };
    let f: usize = kani::any();
    let req = any_request();
    // put
    let before = z.alloc.calls.get();
    let r = z.put(FrameId(f), req);
    if f < offset {
        vassert!("C08", r == Err(Error::Argument) && z.alloc.calls.get() == before, "a frame below the zone offset is rejected without reaching the inner allocator");
    } else {
        vassert!("C17", z.alloc.calls.get() == before + 1 && z.alloc.last_frame.get() == Some(f - offset) && z.alloc.last_order.get() == req.order, "free is forwarded with the frame shifted down by the offset");
        vassert!("C17", r.is_ok() == z.alloc.ret_ok, "the inner result is passed through");
    }
    // targeted get
    let before = z.alloc.calls.get();
    let r = z.get(Some(FrameId(f)), req);
    if f < offset {
        vassert!("C08", r == Err(Error::Argument) && z.alloc.calls.get() == before, "a targeted allocation below the zone offset is rejected without reaching the inner allocator");
    } else {
        vassert!("C17", z.alloc.last_frame.get() == Some(f - offset), "targeted allocation is forwarded with the frame shifted down");
        match r {
            Ok((g, c)) => vassert!("C17", g.0 == ret + offset && c == req.class, "the zone returns exactly the inner allocator's frame shifted up by the offset"),
            Err(e) => vassert!("C17", !z.alloc.ret_ok && e == Error::Memory, "inner errors are passed through"),
        }
    }
    // untargeted get
    let r = z.get(None, req);
    vassert!("C17", z.alloc.last_frame.get().is_none(), "untargeted allocation is forwarded as such");
    if let Ok((g, _)) = r {
        vassert!("C17", g.0 == ret + offset, "the zone returns exactly the inner allocator's frame shifted up by the offset");
    }
    // query
    let before = z.alloc.calls.get();
    let s = z.stats_at(FrameId(f), req.order);
    if f < offset {
        vassert!("C17", s.free_frames == 0 && z.alloc.calls.get() == before, "queries below the offset report nothing");
    } else {
        vassert!("C17", z.alloc.last_frame.get() == Some(f - offset) && s.free_frames == 7, "queries are forwarded with the frame shifted down");
    }
    vassert!("C17", z.frames() == frames, "the zone manages the inner allocator's frames");
}

/// Layout of the persistent wrapper: managed frames, lower metadata and header page are pairwise
/// disjoint and inside the zone.
// @h props=C17 tier=quick geom=4 panics=C09 mem=C18
#[kani::proof]
#[kani::unwind(8)]
fn c17_nvm_layout() {
    const Z: usize = 6;
    let mut zone: [Frame; Z] = core::array::from_fn(|_| Frame::new());
    let n: usize = kani::any();
    kani::assume(n >= 1 && n <= Z);
    let lower_size: usize = kani::any();
    kani::assume(lower_size <= 3 * Frame::SIZE);
    unsafe {
        MOCK_LOWER_SIZE = lower_size;
        MOCK_RET = (0, true);
    }
    let (classing, _) = Classing::simple(1);
    let zone_ptr = zone.as_ptr() as usize;
    // header page contents: arbitrary
    let magic: usize = kani::any();
    let hframes: usize = kani::any();
    {
        let meta: &mut [usize; 2] = zone[n - 1].cast_mut();
        meta[0] = magic;
        meta[1] = hframes;
    }
    let recover: bool = kani::any();
    let r = NvmAlloc::<Mock>::create(&mut zone[..n], recover, &classing, &mut [], &mut []);
    vcover!("C17", r.is_ok() && !recover, "create succeeds");
    vcover!("C17", r.is_ok() && recover, "recover succeeds");
    match r {
        Ok(a) => {
            let inner = &a.alloc.alloc;
            let managed = inner.frames;
            let lower_frames = lower_size.div_ceil(Frame::SIZE);
            vassert!("C17", managed + lower_frames + 1 == n, "zone = managed frames + lower metadata frames + header page");
            let lp = inner.lower_ptr.get();
            vassert!("C17", inner.lower_len.get() == lower_size, "the inner allocator gets a lower buffer of the requested size");
            vassert!("C17", lp == zone_ptr + managed * Frame::SIZE, "lower metadata starts right after the managed frames");
            vassert!("C17", lp + lower_size <= zone_ptr + (n - 1) * Frame::SIZE, "lower metadata ends before the header page");
            vassert!("C17", a.alloc.offset == zone_ptr / Frame::SIZE, "frames are translated by the zone's base frame number");
            // every frame the wrapper can hand out lies below its metadata
            let f: usize = kani::any();
            kani::assume(f < managed);
            vassert!("C17", (a.alloc.offset + f) * Frame::SIZE + Frame::SIZE <= lp, "no frame handed out overlaps the metadata or header pages");
            if recover {
                vassert!("C17", magic == 0xdead_beef && hframes == n - 1, "recovery only of a region that holds an instance of the same size");
                vassert!("C17", inner.init.get() == 2, "recovery uses the recovering initialisation");
            } else {
                vassert!("C17", inner.init.get() == 0, "creation frees all frames");
                let meta: &[usize; 2] = zone[n - 1].cast();
                vassert!("C17", meta[0] == 0xdead_beef && meta[1] == n - 1, "creation records magic and size in the header page");
            }
        }
        Err(e) => {
            vassert!("C17", e == Error::Initialization || e == Error::Memory, "failure is an initialization error");
            if recover && (magic != 0xdead_beef || hframes != n - 1) {
                // refused: fine
            }
        }
    }
}
