//! Harnesses for core/src/lower.rs — L layer of DESIGN.md.
//!
//! The persistent metadata (bitfields + huge-entry tables) of NT trees is fully symbolic,
//! constrained only by consequences of the representation invariant J:
//!   non-huge entry: count == number of clear bits of its bitfield (<= 512);
//!   huge entry: bitfield all zero and the huge frame lies entirely inside the managed range;
//!   bits of frames >= frames() are set; entries of the last table without a bitfield are 0.
//! `count == popcount` itself is never put into a formula (it dominates solving time); the
//! harnesses assume the *instances* of its consequences they need (each is an instance of a
//! lemma proved in bitfield.rs: lemma_popcount_*) and assert post-states in delta form
//! (`entry' = entry -/+ 2^k`, `rows' = rows xor block`), which re-establishes J by the lemmas.
#![allow(dead_code, unused_imports)]
use super::*;
use crate::bitfield::verif_bitfield::{block_all, block_mask, NROWS};
use crate::verif_support::*;
use core::sync::atomic::Ordering::Relaxed;
use crate::BITFIELD_ROW;

// NT = number of trees of the symbolic lower allocator, NH = NT * TREE_HUGE its huge frames
// (const parameters; one- and two-tree instances are used).
pub(crate) const NH1: usize = TREE_HUGE;
pub(crate) const NH2: usize = 2 * TREE_HUGE;
const HUGE: u16 = u16::MAX;

pub(crate) struct LState<const NT: usize, const NH: usize> {
    pub bitfields: [Align<Bitfield>; NH],
    pub children: [Align<[Atom<HugeEntry>; TREE_HUGE]>; NT],
}
#[derive(Clone, Copy)]
pub(crate) struct LModel<const NH: usize> {
    pub rows: [[u64; NROWS]; NH],
    pub entries: [u16; NH],
}

impl<const NT: usize, const NH: usize> LState<NT, NH> {
    pub fn any() -> Self {
        Self {
            bitfields: core::array::from_fn(|_| Align(crate::bitfield::verif_bitfield::any_bitfield())),
            children: core::array::from_fn(|_| Align(core::array::from_fn(|_| Atom::new(HugeEntry::from_bits(kani::any()))))),
        }
    }
    pub fn snapshot(&self) -> LModel<NH> {
        LModel {
            rows: core::array::from_fn(|h| crate::bitfield::verif_bitfield::rows_of(&self.bitfields[h])),
            entries: core::array::from_fn(|h| self.children[h / TREE_HUGE][h % TREE_HUGE].0.load(Relaxed)),
        }
    }
    pub fn restore(&self, m: &LModel<NH>) {
        for h in 0..NH {
            crate::bitfield::verif_bitfield::set_rows(&self.bitfields[h], &m.rows[h]);
            self.children[h / TREE_HUGE][h % TREE_HUGE].0.store(m.entries[h], Relaxed);
        }
    }
    /// The real `Lower` over this state, sized as `Lower::new` would size it for `frames`.
    pub fn lower(&self, frames: usize) -> Lower<'_> {
        Lower {
            len: frames,
            bitfields: &self.bitfields[..frames.div_ceil(Bitfield::LEN)],
            children: &self.children[..frames.div_ceil(TREE_FRAMES)],
        }
    }
    /// Same, for a frame count that needs exactly `nbf` bitfields and NT tables: concrete slice
    /// lengths (loops over the slices then unwind exactly instead of to the global bound).
    pub fn lower_exact(&self, frames: usize, nbf: usize) -> Lower<'_> {
        kani::assume(frames.div_ceil(Bitfield::LEN) == nbf && frames.div_ceil(TREE_FRAMES) == NT);
        Lower { len: frames, bitfields: &self.bitfields[..nbf], children: &self.children }
    }
}

/// (harness) a `Lower` that manages `frames` frames but has no metadata behind it
pub(crate) fn lower_without_metadata(frames: usize) -> Lower<'static> {
    Lower { len: frames, bitfields: &[], children: &[] }
}
/// A frame count that needs exactly NT trees (the last one possibly partial).
pub(crate) fn any_frames<const NT: usize>() -> usize {
    let frames: usize = kani::any();
    kani::assume(frames > (NT - 1) * TREE_FRAMES && frames <= NT * TREE_FRAMES);
    frames
}

impl<const NH: usize> LModel<NH> {
    pub fn huge(&self, h: usize) -> bool {
        self.entries[h] == HUGE
    }
    pub fn count(&self, h: usize) -> usize {
        if self.huge(h) { 0 } else { self.entries[h] as usize }
    }
    /// block of order k < HUGE_ORDER at frame f entirely free
    pub fn small_free(&self, f: usize, k: usize) -> bool {
        let h = f / HUGE_FRAMES;
        !self.huge(h) && block_all(&self.rows[h], f % HUGE_FRAMES, k, false)
    }
    /// block of order k < HUGE_ORDER at frame f entirely allocated as base frames
    pub fn small_alloc(&self, f: usize, k: usize) -> bool {
        let h = f / HUGE_FRAMES;
        !self.huge(h) && block_all(&self.rows[h], f % HUGE_FRAMES, k, true)
    }
    /// all huge frames of the block of order k >= HUGE_ORDER at f are entirely free / whole-allocated
    pub fn huge_all(&self, f: usize, k: usize, v: u16) -> bool {
        let mut ok = true;
        let h0 = f / HUGE_FRAMES;
        for i in 0..NH {
            if i >= h0 && i < h0 + (1 << (k - HUGE_ORDER)) && self.entries[i] != v {
                ok = false;
            }
        }
        ok
    }
    pub fn block_free(&self, f: usize, k: usize) -> bool {
        if k >= HUGE_ORDER { self.huge_all(f, k, HUGE_FRAMES as u16) } else { self.small_free(f, k) }
    }
}

fn in_range(frames: usize, h: usize) -> usize {
    frames.saturating_sub(h * HUGE_FRAMES).min(HUGE_FRAMES)
}

/// Assume the state-wide consequences of the representation invariant J.
pub(crate) fn assume_inv<const NH: usize>(m: &LModel<NH>, frames: usize) {
    let nbf = frames.div_ceil(HUGE_FRAMES);
    for h in 0..NH {
        let e = m.entries[h];
        if h >= nbf {
            // entry of the last table without a bitfield: not part of the managed range
            kani::assume(e == 0);
            continue;
        }
        let inr = in_range(frames, h);
        if e == HUGE {
            kani::assume(inr == HUGE_FRAMES);
            for r in 0..NROWS {
                kani::assume(m.rows[h][r] == 0);
            }
        } else {
            // count == zeros <= frames of this huge frame inside the range
            kani::assume(e as usize <= inr);
            for r in 0..NROWS {
                // bits of frames beyond the range are set
                let lo = r * 64;
                let row = m.rows[h][r];
                if inr <= lo {
                    kani::assume(row == u64::MAX);
                } else if inr < lo + 64 {
                    kani::assume(row >> (inr - lo) == u64::MAX >> (inr - lo));
                }
                // lemma_popcount_extremes: count == LEN  =>  all rows zero
                if e as usize == HUGE_FRAMES {
                    kani::assume(row == 0);
                }
            }
        }
    }
}
/// Instances of `count == zeros` for one aligned block (lemma_popcount_block_o<k>).
pub(crate) fn assume_block_instances<const NH: usize>(m: &LModel<NH>, f: usize, k: usize) {
    if k < HUGE_ORDER {
        let h = f / HUGE_FRAMES;
        if m.small_free(f, k) {
            kani::assume(m.count(h) >= 1 << k);
        }
        if m.small_alloc(f, k) {
            kani::assume(m.count(h) + (1 << k) <= HUGE_FRAMES);
        }
    }
}

/// post == pre except: the block (f, k) flipped in the bitfield and the entry moved by `delta`
fn only_small_changed<const NH: usize>(pre: &LModel<NH>, post: &LModel<NH>, f: usize, k: usize, new_entry: u16) -> bool {
    let mut ok = true;
    let hf = f / HUGE_FRAMES;
    for h in 0..NH {
        for r in 0..NROWS {
            let want = if h == hf { pre.rows[h][r] ^ block_mask(r, f % HUGE_FRAMES, k) } else { pre.rows[h][r] };
            if post.rows[h][r] != want {
                ok = false;
            }
        }
        let want = if h == hf { new_entry } else { pre.entries[h] };
        if post.entries[h] != want {
            ok = false;
        }
    }
    ok
}
/// post == pre except: the entries of the huge block (f, k) are `v`
fn only_huge_changed<const NH: usize>(pre: &LModel<NH>, post: &LModel<NH>, f: usize, k: usize, v: u16) -> bool {
    let mut ok = true;
    let h0 = f / HUGE_FRAMES;
    for h in 0..NH {
        for r in 0..NROWS {
            if post.rows[h][r] != pre.rows[h][r] {
                ok = false;
            }
        }
        let want = if h >= h0 && h < h0 + (1 << (k - HUGE_ORDER)) { v } else { pre.entries[h] };
        if post.entries[h] != want {
            ok = false;
        }
    }
    ok
}
pub(crate) fn unchanged<const NH: usize>(pre: &LModel<NH>, post: &LModel<NH>) -> bool {
    let mut ok = true;
    for h in 0..NH {
        for r in 0..NROWS {
            if post.rows[h][r] != pre.rows[h][r] {
                ok = false;
            }
        }
        if post.entries[h] != pre.entries[h] {
            ok = false;
        }
    }
    ok
}

/// The contract of a successful allocation of (f, k) from `pre` to `post`.
pub(crate) fn check_alloc_effect<const NH: usize>(pre: &LModel<NH>, post: &LModel<NH>, f: usize, k: usize, frames: usize) {
    vassert!("C01", f % (1 << k) == 0, "allocated block starts at a multiple of its size");
    vassert!("C01", f + (1 << k) <= frames, "allocated block lies inside the managed range");
    vassert!("C01", pre.block_free(f, k), "allocated block was entirely free (no overlap with held blocks)");
    if k >= HUGE_ORDER {
        vassert!("C02", only_huge_changed(pre, post, f, k, HUGE), "allocation marks exactly the block's huge frames");
    } else {
        let e = pre.entries[f / HUGE_FRAMES];
        vassert!("C02", e != HUGE && e as usize >= (1 << k) && only_small_changed(pre, post, f, k, e - (1 << k) as u16),
            "allocation marks exactly the block's frames and lowers its huge frame's counter by the block size");
    }
}

/// Untargeted `Lower::get` of one order from an arbitrary state.
fn l_get_body<const NT: usize, const NH: usize>(k: usize) {
    let st = LState::<NT, NH>::any();
    let frames = any_frames::<NT>();
    let pre = st.snapshot();
    assume_inv(&pre, frames);
    let lower = st.lower(frames);
    let start: usize = kani::any();
    kani::assume(start < (1 << 40) && start * BITFIELD_ROW < frames);
    let tree = start * BITFIELD_ROW / TREE_FRAMES;
    // completeness witness: an aligned block in the tree of `start`
    let p: usize = kani::any();
    kani::assume(p % (1 << k) == 0 && p / TREE_FRAMES == tree && p + (1 << k) <= frames);
    assume_block_instances(&pre, p, k);

    install(Mode::Seq);
    let r = if k <= 6 {
        lower.get(RowId(start), k, None)
    } else {
        // Multi-row / multi-entry orders ignore the row hint: `start` only selects the tree and the
        // first huge frame. Case-split over these (concrete indices keep CBMC's memory model cheap).
        kani::assume(start % NROWS == 0);
        let mut r = Err(Error::Argument);
        for c in 0..NH {
            if start == c * NROWS {
                r = lower.get(RowId(c * NROWS), k, None);
            }
        }
        r
    };
    set_mode(Mode::Off);
    let post = st.snapshot();
    vcover!("C12", r.is_ok() && tree == NT - 1, "allocation in the last tree");
    vcover!("C12", r.is_err(), "tree exhausted for this order");
    match r {
        Ok(f) => {
            vassert!("C12", f.0 / TREE_FRAMES == tree, "directed allocation stays inside its tree");
            check_alloc_effect(&pre, &post, f.0, k, frames);
        }
        Err(e) => {
            vassert!("C02", e == Error::Memory, "failure is out of memory");
            vassert!("C02", unchanged(&pre, &post), "a failed allocation leaves every frame's status unchanged");
            vassert!("C12", !pre.block_free(p, k), "directed allocation fails only if the tree has no free aligned block of the order");
        }
    }
}

/// Targeted allocation of one order.
fn l_get_at_body<const NT: usize, const NH: usize>(k: usize) {
    let st = LState::<NT, NH>::any();
    let frames = any_frames::<NT>();
    let pre = st.snapshot();
    assume_inv(&pre, frames);
    let lower = st.lower(frames);
    let f: usize = kani::any();
    kani::assume(f < (1 << 40) && f % (1 << k) == 0 && f + (1 << k) <= frames);
    assume_block_instances(&pre, f, k);
    install(Mode::Seq);
    // (the start row is ignored for targeted allocations)
    let r = if k <= 6 {
        lower.get(RowId(0), k, Some(FrameId(f)))
    } else {
        // case split over the (few) aligned positions: concrete indices for the multi-CAS orders
        let mut r = Err(Error::Argument);
        for c in 0..(NH * HUGE_FRAMES) >> k {
            if f == c << k {
                r = lower.get(RowId(0), k, Some(FrameId(c << k)));
            }
        }
        r
    };
    set_mode(Mode::Off);
    let post = st.snapshot();
    vcover!("C02", r.is_ok() && f / TREE_FRAMES == NT - 1, "targeted allocation in the last tree");
    vcover!("C02", r.is_err(), "target not free");
    vassert!("C02", r.is_ok() == pre.block_free(f, k), "targeted allocation succeeds exactly when the whole block is free");
    match r {
        Ok(g) => {
            vassert!("C02", g.0 == f, "a targeted allocation returns exactly the requested frame");
            check_alloc_effect(&pre, &post, f, k, frames);
        }
        Err(e) => {
            vassert!("C02", e == Error::Memory, "failure is out of memory");
            vassert!("C02", unchanged(&pre, &post), "a failed allocation leaves every frame's status unchanged");
        }
    }
}

/// `Lower::put` of one order.
fn l_put_body<const NT: usize, const NH: usize>(k: usize) {
    let st = LState::<NT, NH>::any();
    let frames = any_frames::<NT>();
    let pre = st.snapshot();
    assume_inv(&pre, frames);
    let lower = st.lower(frames);
    let f: usize = kani::any();
    kani::assume(f < (1 << 40) && f % (1 << k) == 0 && f + (1 << k) <= frames);
    assume_block_instances(&pre, f, k);
    install(Mode::Seq);
    let r = if k <= 6 {
        lower.put(FrameId(f), k)
    } else {
        let mut r = Err(Error::Argument);
        for c in 0..(NH * HUGE_FRAMES) >> k {
            if f == c << k {
                r = lower.put(FrameId(c << k), k);
            }
        }
        r
    };
    set_mode(Mode::Off);
    let post = st.snapshot();
    let h = f / HUGE_FRAMES;
    vcover!("C02", r.is_ok(), "free succeeds");
    vcover!("C02", r.is_err(), "free refused");
    vcover!("C02", k >= HUGE_ORDER || (pre.huge(h) && r.is_ok()), "partial free of a whole-allocated huge frame");
    if k >= HUGE_ORDER {
        let held = pre.huge_all(f, k, HUGE);
        vassert!("C02", r.is_ok() == held, "a huge-order free succeeds exactly when every covered huge frame was allocated whole");
        if r.is_ok() {
            vassert!("C02", only_huge_changed(&pre, &post, f, k, HUGE_FRAMES as u16), "a huge-order free frees exactly the covered huge frames");
        }
    } else if pre.huge(h) {
        vassert!("C02", r.is_ok(), "freeing part of a whole-allocated huge frame succeeds");
        // split: every other frame of the huge frame stays allocated (as base frames)
        let mut ok = true;
        for g in 0..NH {
            for r in 0..NROWS {
                let want = if g == h { !block_mask(r, f % HUGE_FRAMES, k) } else { pre.rows[g][r] };
                if post.rows[g][r] != want {
                    ok = false;
                }
            }
            let want = if g == h { (1u16) << k } else { pre.entries[g] };
            if post.entries[g] != want {
                ok = false;
            }
        }
        vassert!("C02", ok, "a partial free splits the huge frame: exactly the freed frames become free, the rest stays allocated");
    } else {
        let held = pre.small_alloc(f, k);
        vassert!("C02", r.is_ok() == held, "a free succeeds exactly when every frame of the block is allocated");
        if r.is_ok() {
            let e = pre.entries[h];
            vassert!("C02", only_small_changed(&pre, &post, f, k, e + (1 << k) as u16), "a free releases exactly the block's frames and raises the counter by the block size");
        }
    }
    if let Err(e) = r {
        vassert!("C02", e == Error::Memory, "failure is out of memory");
        vassert!("C02", unchanged(&pre, &post), "a failed free leaves every frame's status unchanged");
    }
}

/// Queries agree with the bit-level model (C04, lower part): per-frame and per-huge-frame.
fn l_queries_frame_body<const NT: usize, const NH: usize>() {
    let st = LState::<NT, NH>::any();
    let frames = any_frames::<NT>();
    let pre = st.snapshot();
    assume_inv(&pre, frames);
    let lower = st.lower_exact(frames, NH);
    let f: usize = kani::any();
    kani::assume(f < frames);
    assume_block_instances(&pre, f, 0);
    let h = f / HUGE_FRAMES;
    let s0 = lower.stats_at(FrameId(f), 0);
    vassert!("C04", s0.free_frames == pre.small_free(f, 0) as usize, "per-frame query reports exactly whether the frame is free");
    vassert!("C04", lower.is_free(FrameId(f), 0) == pre.small_free(f, 0), "is_free(order 0) agrees with the frame's status");
    let sh = lower.stats_at(FrameId(f), HUGE_ORDER);
    vassert!("C04", sh.free_frames == pre.count(h) && sh.free_huge == (pre.count(h) == HUGE_FRAMES) as usize, "per-huge-frame query reports the huge frame's free count");
    vassert!("C04", unchanged(&pre, &st.snapshot()), "queries change nothing");
}
/// Per-tree and global statistics are the sums over the huge-frame counters.
fn l_queries_stats_body<const NT: usize, const NH: usize>() {
    let st = LState::<NT, NH>::any();
    let frames = any_frames::<NT>();
    let pre = st.snapshot();
    assume_inv(&pre, frames);
    let lower = st.lower_exact(frames, NH);
    let mut all = 0;
    let mut allhuge = 0;
    let mut alltrees = 0;
    for i in 0..NT {
        let mut tf = 0;
        let mut th = 0;
        for j in 0..TREE_HUGE {
            let c = pre.count(i * TREE_HUGE + j);
            tf += c;
            if c == HUGE_FRAMES {
                th += 1;
            }
        }
        all += tf;
        allhuge += th;
        if tf == TREE_FRAMES {
            alltrees += 1;
        }
        let t = lower.stats_at(FrameId(i * TREE_FRAMES), TREE_ORDER);
        // (with one huge frame per tree the tree order IS the huge order and `stats_at` answers
        // the per-huge-frame query, which leaves free_trees at 0: not compared in that geometry)
        vassert!("C04", t.free_frames == tf && t.free_huge == th && (TREE_ORDER == HUGE_ORDER || t.free_trees == (tf == TREE_FRAMES) as usize), "per-tree query reports the tree's free frames and free huge frames");
    }
    let s = lower.stats();
    vassert!("C04", s.free_frames == all && s.free_huge == allhuge && s.free_trees == alltrees, "exact statistics are the sums over the huge-frame counters");
    vassert!("C04", unchanged(&pre, &st.snapshot()), "queries change nothing");
}

fn l_is_free_orders_body<const NT: usize, const NH: usize>() {
    let st = LState::<NT, NH>::any();
    let frames = any_frames::<NT>();
    let pre = st.snapshot();
    assume_inv(&pre, frames);
    let lower = st.lower(frames);
    let k: usize = kani::any();
    kani::assume(k <= TREE_ORDER);
    let f: usize = kani::any();
    kani::assume(f < (1 << 40) && f % (1 << k) == 0 && f + (1 << k) <= frames);
    assume_block_instances(&pre, f, k);
    vassert!("C04", lower.is_free(FrameId(f), k) == pre.block_free(f, k), "is_free agrees with the block's status for every order");
}

// =============================================================================================
// Interference at the lower layer (one huge frame: one counter/marker entry + one bitfield).
// Thread-modular rely/guarantee (DESIGN.md §3). Ghost state of the call under test:
//   MINE   bits of the bitfield I own (set by my RMWs / handed in with a held block)
//   W      frames I withhold from the counter (held block + decrements - increments by me)
//   PART   my part of a huge frame that is (still) marked as allocated whole
//   WHOLE  I own the huge marker
// Rely (what other threads may do between my atomic steps):
//   R1 bits in MINE stay set; bits of frames outside the managed range stay set
//   R2 a non-huge counter stays <= 512 - W; it cannot become the huge marker while W > 0
//   R3 a huge marker I own (WHOLE), or whose bitfield I am filling (MINE != 0), stays
//   R4 a huge marker covering my PART may be cleared by another part holder only after it
//      filled the whole bitfield: afterwards the bits of PART are set (and protected by R1)
// Guarantee (asserted on each of my RMWs; it is the mirror image, so it discharges the rely
// of every other thread): I clear only bits in MINE; I never own more bits than I withhold
// (|MINE| <= W, except while I fill a bitfield under the marker); the counter moves only by
// what I withhold / give back; I set the marker only over a counter I saw at 512 and clear it
// only if I own it or filled its bitfield.
// =============================================================================================
pub(crate) struct Ghost {
    st: *const LState<1, NH1>,
    frames: usize,
    mine: [u64; NROWS],
    nmine: usize,
    w: usize,
    part: [u64; NROWS],
    whole: bool,
    bad: bool,     // guarantee violated
    env_steps: usize,
    joined: bool,  // R4 happened: my part became ordinary held bits
}
static mut G: Ghost = Ghost { st: core::ptr::null(), frames: 0, mine: [0; NROWS], nmine: 0, w: 0, part: [0; NROWS], whole: false, bad: false, env_steps: 0, joined: false };

fn out_of_range_mask(frames: usize, r: usize) -> u64 {
    let lo = r * 64;
    if frames <= lo { u64::MAX } else if frames < lo + 64 { u64::MAX << (frames - lo) } else { 0 }
}
fn entry_atom(st: &LState<1, NH1>) -> &Atom<HugeEntry> {
    &st.children[0][0]
}

/// Environment step before my access to `addr` (see bf_env in bitfield.rs for why only the
/// accessed word needs to change). Entry and rows are correlated only through R3/R4, which is
/// handled when the entry is the accessed word.
fn l_env(addr: *const u8, _size: usize) {
    unsafe {
        let st = &*G.st;
        if !kani::any::<bool>() {
            return;
        }
        if core::ptr::eq(addr, (entry_atom(st) as *const Atom<HugeEntry>).cast()) {
            let old = entry_atom(st).0.load(Relaxed);
            let new: u16 = kani::any();
            if old == HUGE {
                if G.whole || G.nmine > 0 {
                    return; // R3
                }
                if new != HUGE {
                    // another holder releases the marker (whole free: 512) or splits it (R4)
                    let has_part = G.part[0] != 0 || G.part[1] != 0 || G.part[2] != 0 || G.part[3] != 0
                        || G.part[4] != 0 || G.part[5] != 0 || G.part[6] != 0 || G.part[7] != 0;
                    if has_part {
                        kani::assume(new as usize <= HUGE_FRAMES - G.w);
                        // the bitfield was filled; others may already have freed their parts
                        for r in 0..NROWS {
                            let v: u64 = kani::any();
                            st.bitfields[0].row_atom(r).0.store(v | G.part[r] | out_of_range_mask(G.frames, r), Relaxed);
                            G.mine[r] = G.part[r];
                            G.part[r] = 0;
                        }
                        G.nmine = G.w;
                        G.joined = true;
                    } else {
                        kani::assume(new as usize <= HUGE_FRAMES - G.w);
                    }
                }
            } else {
                // R2
                if new == HUGE {
                    kani::assume(G.w == 0 && G.nmine == 0);
                } else {
                    kani::assume(new as usize <= HUGE_FRAMES - G.w);
                }
            }
            entry_atom(st).0.store(new, Relaxed);
            G.env_steps += 1;
        } else if let Some((r, _)) = crate::bitfield::verif_bitfield::row_of_addr(&st.bitfields[0], addr) {
            if G.whole {
                return; // nobody else touches the bitfield of a huge frame I own entirely
            }
            let v: u64 = kani::any();
            st.bitfields[0].row_atom(r).0.store(v | G.mine[r] | out_of_range_mask(G.frames, r), Relaxed);
            G.env_steps += 1;
        }
    }
}

/// Ghost update + guarantee check for my own successful writes.
fn l_on_write(addr: *const u8, size: usize, old: u64, new: u64) {
    unsafe {
        let st = &*G.st;
        if core::ptr::eq(addr, (entry_atom(st) as *const Atom<HugeEntry>).cast()) {
            let (old, new) = (old as u16, new as u16);
            if old == new {
                return;
            }
            if old != HUGE && new != HUGE {
                if new < old {
                    G.w += (old - new) as usize; // withheld from the counter
                } else {
                    let d = (new - old) as usize;
                    // give back only what I withhold and no longer own as bits
                    if d + G.nmine > G.w {
                        G.bad = true;
                    } else {
                        G.w -= d;
                    }
                }
            } else if new == HUGE {
                // whole allocation: only over a completely free huge frame I hold nothing in
                if old as usize != HUGE_FRAMES || G.w != 0 || G.nmine != 0 {
                    G.bad = true;
                }
                G.whole = true;
                G.w = HUGE_FRAMES;
            } else if new as usize == HUGE_FRAMES {
                // whole free
                if !G.whole {
                    G.bad = true;
                }
                G.whole = false;
                G.w = 0;
            } else if new == 0 {
                // split: I filled the bitfield and now hold my part as ordinary bits
                let mut full = true;
                for r in 0..NROWS {
                    if G.mine[r] != u64::MAX {
                        full = false;
                    }
                }
                if !full {
                    G.bad = true;
                }
                if G.whole {
                    G.whole = false; // keep all 512 bits, W == 512
                } else {
                    let mut n = 0;
                    for r in 0..NROWS {
                        G.mine[r] = G.part[r];
                        n += G.part[r].count_ones() as usize;
                        G.part[r] = 0;
                    }
                    if n == 0 {
                        G.bad = true; // cleared a marker I hold no part of
                    }
                    G.nmine = n;
                    G.joined = true;
                }
            } else {
                G.bad = true;
            }
        } else {
            let Some((r, sh)) = crate::bitfield::verif_bitfield::row_of_addr(&st.bitfields[0], addr) else {
                return;
            };
            let (old, new) = if size >= 8 { (old, new) } else { ((old & ((1u64 << (size * 8)) - 1)) << sh, (new & ((1u64 << (size * 8)) - 1)) << sh) };
            let set = new & !old;
            let cleared = old & !new;
            if cleared & !G.mine[r] != 0 {
                G.bad = true; // O2
            }
            let owned_cleared = (cleared & G.mine[r]).count_ones() as usize;
            G.mine[r] = (G.mine[r] | set) & !cleared;
            G.nmine = (G.nmine + set.count_ones() as usize).saturating_sub(owned_cleared);
            // never own more bits than withheld -- except while filling under the huge marker
            let e = entry_atom(st).0.load(Relaxed);
            if G.nmine > G.w && e != HUGE {
                G.bad = true;
            }
        }
    }
}

fn l_interference(st: &LState<1, NH1>, frames: usize, freeze: bool) {
    unsafe {
        G = Ghost { st, frames, mine: [0; NROWS], nmine: 0, w: 0, part: [0; NROWS], whole: false, bad: false, env_steps: 0, joined: false };
        ENV = Some(l_env);
        ON_WRITE = Some(l_on_write);
        FREEZE_AT = if freeze { kani::any() } else { usize::MAX };
    }
}
/// Arbitrary state of one huge frame as any other thread could observe it mid-flight:
/// counter <= 512 or the marker; bits outside the range set.
fn l_any_state(frames: usize) -> LState<1, NH1> {
    let st = LState::<1, NH1>::any();
    let e = entry_atom(&st).0.load(Relaxed);
    kani::assume(e == HUGE || e as usize <= HUGE_FRAMES);
    kani::assume(e != HUGE || frames == HUGE_FRAMES);
    for r in 0..NROWS {
        let v = st.bitfields[0].row_atom(r).0.load(Relaxed);
        st.bitfields[0].row_atom(r).0.store(v | out_of_range_mask(frames, r), Relaxed);
    }
    st
}
fn l_mine_is_block(f: usize, k: usize) -> bool {
    let mut ok = true;
    for r in 0..NROWS {
        if unsafe { G.mine[r] } != block_mask(r, f, k) {
            ok = false;
        }
    }
    ok
}
fn l_mine_empty() -> bool {
    let mut ok = true;
    for r in 0..NROWS {
        if unsafe { G.mine[r] } != 0 {
            ok = false;
        }
    }
    ok
}

/// Allocation (untargeted or targeted) of one order under interference.
fn li_get_body(k: usize, targeted: bool, freeze: bool) {
    let frames: usize = kani::any();
    kani::assume(frames >= 1 && frames <= TREE_FRAMES);
    let st = l_any_state(frames);
    let lower = st.lower(frames);
    // concrete row hints (see int_set_first_zeros_body in bitfield.rs)
    let start: usize = if kani::any() { 0 } else { 5 };
    kani::assume(start * BITFIELD_ROW < frames);
    let target: usize = kani::any();
    kani::assume(target < TREE_FRAMES && target % (1 << k) == 0 && target + (1 << k) <= frames);
    l_interference(&st, frames, freeze);
    install(Mode::Interference);
    let r = lower.get(RowId(start), k, if targeted { Some(FrameId(target)) } else { None });
    set_mode(Mode::Off);
    let now = st.snapshot();
    let g = unsafe { &*core::ptr::addr_of!(G) };
    vcover!("C01", r.is_ok() && g.env_steps > 0, "allocation succeeds although other threads interfered");
    vcover!("C01", r.is_err() && g.env_steps > 0, "allocation fails under interference");
    vassert!("C01,C05", !g.bad, "(guarantee) every write of the call only clears bits it owns, only takes from the counter what it marks, only marks huge frames it saw entirely free");
    match r {
        Ok(f) => {
            let f = f.0;
            vassert!("C01", f % (1 << k) == 0 && f + (1 << k) <= frames, "granted block is aligned and inside the managed range");
            vassert!("C02", !targeted || f == target, "a targeted allocation returns exactly the requested frame");
            if k >= HUGE_ORDER {
                vassert!("C01", g.whole && now.entries[0] == HUGE, "(O1) the granted huge frame carries this call's marker");
            } else {
                vassert!("C01", l_mine_is_block(f, k), "(O1) the granted block is exactly what this call marked itself (no other thread can hold any part of it)");
                vassert!("C01", block_all(&now.rows[0], f, k, true), "(O1) every frame of the granted block is marked allocated");
                vassert!("C04", g.w == (1 << k), "the call withholds exactly the granted frames from the counter");
            }
        }
        Err(e) => {
            vassert!("C03", e == Error::Memory, "contention is reported as out of memory");
            vassert!("C01", l_mine_empty() && !g.whole, "(O3) a failed allocation keeps nothing marked");
            vassert!("C04", g.w == 0, "a failed allocation gives back everything it took from the counter");
        }
    }
    if freeze {
        vassert!("C21", unsafe { STEPS_FROZEN } <= 6 * NROWS + 12, "the call finishes within a bounded number of steps once it runs alone");
    }
}

/// Free of a held block under interference. `shape`: 0 = block held as base frames,
/// 1 = part of a huge frame that is still marked allocated whole (other holders may split it
/// concurrently), 2 = the whole huge frame (order 9) or a part of a huge frame I own entirely.
fn li_put_body(k: usize, shape: u8, freeze: bool) {
    let frames: usize = kani::any();
    kani::assume(frames >= 1 && frames <= TREE_FRAMES);
    let st = l_any_state(frames);
    let lower = st.lower(frames);
    let f: usize = kani::any();
    kani::assume(f < TREE_FRAMES && f % (1 << k) == 0 && f + (1 << k) <= frames);
    l_interference(&st, frames, freeze);
    unsafe {
        let e = entry_atom(&st).0.load(Relaxed);
        if shape == 0 {
            // held as base frames: bits set and mine, counter excludes them
            kani::assume(e != HUGE && e as usize + (1 << k) <= HUGE_FRAMES);
            for r in 0..NROWS {
                G.mine[r] = block_mask(r, f, k);
                let v = st.bitfields[0].row_atom(r).0.load(Relaxed);
                st.bitfields[0].row_atom(r).0.store(v | G.mine[r], Relaxed);
            }
            G.nmine = 1 << k;
            G.w = 1 << k;
        } else if shape == 1 {
            kani::assume(e == HUGE && frames == HUGE_FRAMES);
            for r in 0..NROWS {
                G.part[r] = block_mask(r, f, k);
            }
            G.w = 1 << k;
        } else {
            kani::assume(e == HUGE && frames == HUGE_FRAMES);
            G.whole = true;
            G.w = HUGE_FRAMES;
            for r in 0..NROWS {
                st.bitfields[0].row_atom(r).0.store(0, Relaxed);
            }
        }
    }
    install(Mode::Interference);
    let r = lower.put(FrameId(f), k);
    set_mode(Mode::Off);
    let g = unsafe { &*core::ptr::addr_of!(G) };
    vcover!("C03", r.is_ok() && (g.env_steps > 0 || shape == 2), "free succeeds although other threads interfered");
    vcover!("C03", shape != 1 || g.joined, "another holder (or this call) split the huge frame");
    vassert!("C01,C05", !g.bad, "(guarantee) every write of the call only clears bits it owns, only returns to the counter what it gave up, only clears a huge marker after it filled the bitfield");
    vassert!("C03", r.is_ok(), "a free of a held block always succeeds");
    if shape == 2 && k < HUGE_ORDER {
        // split of a huge frame I own entirely: everything but the freed block stays mine
        vassert!("C02", g.w == HUGE_FRAMES - (1 << k) && g.nmine == g.w, "after a split the caller still holds every other frame of the huge frame");
    } else {
        vassert!("C01", l_mine_empty() && !g.whole, "after the free the call owns nothing");
        vassert!("C04", g.w == 0, "after the free the counter got back exactly the freed frames");
    }
    if freeze {
        vassert!("C21", unsafe { STEPS_FROZEN } <= 6 * NROWS + 12, "the call finishes within a bounded number of steps once it runs alone");
    }
}

// =============================================================================================
// Initialisation (C06), recovery (C05a) and crash points inside a call (C05b)
// =============================================================================================

/// `check_inv`: the asserted mirror image of `assume_inv`, with the exact popcount relation
/// (used where the popcount is affordable: initial states are all-zero / all-one rows).
fn check_exact_inv<const NH: usize>(m: &LModel<NH>, frames: usize) -> bool {
    let nbf = frames.div_ceil(HUGE_FRAMES);
    let mut ok = true;
    for h in 0..NH {
        let e = m.entries[h];
        if h >= nbf {
            if e != 0 {
                ok = false;
            }
            continue;
        }
        let inr = in_range(frames, h);
        if e == HUGE {
            if inr != HUGE_FRAMES {
                ok = false;
            }
            for r in 0..NROWS {
                if m.rows[h][r] != 0 {
                    ok = false;
                }
            }
        } else {
            if e as usize != crate::bitfield::verif_bitfield::zeros(&m.rows[h]) {
                ok = false;
            }
            for r in 0..NROWS {
                if m.rows[h][r] & out_of_range_mask(inr, r) != out_of_range_mask(inr, r) {
                    ok = false;
                }
            }
        }
    }
    ok
}

/// Free-all / allocate-all initialisation from arbitrary garbage, for every frame count
/// from 0 to NT trees.
fn l_init_body<const NT: usize, const NH: usize>(alloc_all: bool, nbf_c: usize) {
    let st = LState::<NT, NH>::any();
    let frames: usize = kani::any();
    kani::assume(frames <= NT * TREE_FRAMES);
    let lower = if nbf_c == 0 {
        kani::assume(frames == 0);
        Lower { len: 0, bitfields: &[], children: &[] }
    } else {
        st.lower_exact(frames, nbf_c)
    };
    // (initialisation runs before the allocator is shared: no observers needed)
    if alloc_all { lower.reserve_all() } else { lower.free_all() }
    let m = st.snapshot();
    let nbf = frames.div_ceil(HUGE_FRAMES);
    let ntab = frames.div_ceil(TREE_FRAMES);
    vcover!("C06", nbf_c == 0 || frames % HUGE_FRAMES != 0, "partial last huge frame");
    // witness frame and witness huge frame
    let w: usize = kani::any();
    kani::assume(w < nbf * HUGE_FRAMES);
    let bit = m.rows[w / HUGE_FRAMES][w % HUGE_FRAMES / 64] >> (w % 64) & 1 == 1;
    let h: usize = kani::any();
    kani::assume(h < ntab * TREE_HUGE);
    let inr = in_range(frames, h);
    if !alloc_all {
        vassert!("C06", bit == (w >= frames), "free-all: a frame is marked allocated exactly when it lies at or beyond the managed count");
        vassert!("C06", m.entries[h] as usize == inr, "free-all: every huge frame's counter is the number of its frames inside the managed range");
    } else {
        let whole = inr == HUGE_FRAMES;
        vassert!("C06", m.entries[h] == if whole { HUGE } else { 0 }, "allocate-all: whole huge frames carry the huge marker, every other counter is zero");
        vassert!("C06", bit == !(w / HUGE_FRAMES < frames / HUGE_FRAMES), "allocate-all: frames of whole huge frames are clear under their marker, every other frame is marked allocated");
    }
    vassert!("C06", check_exact_inv(&m, frames), "the initial state satisfies the representation invariant (counters equal clear bits, nothing beyond the range is free)");
}

/// `recover()` on any state a crash can leave behind: arbitrary counters/markers, arbitrary
/// rows except that bits beyond the range are set (no operation ever clears them: C08).
fn l_recover_body<const NT: usize, const NH: usize>(nbf_c: usize) {
    let st = LState::<NT, NH>::any();
    let frames: usize = kani::any();
    kani::assume(frames >= 1 && frames <= NT * TREE_FRAMES);
    let pre = st.snapshot();
    let nbf = frames.div_ceil(HUGE_FRAMES);
    for h in 0..NH {
        if h < nbf {
            let inr = in_range(frames, h);
            // a huge marker is only ever written over huge frames entirely inside the range
            kani::assume(pre.entries[h] != HUGE || inr == HUGE_FRAMES);
            for r in 0..NROWS {
                kani::assume(pre.rows[h][r] & out_of_range_mask(inr, r) == out_of_range_mask(inr, r));
            }
        } else {
            // entries of the last table without a bitfield are never written after initialisation
            kani::assume(pre.entries[h] == 0);
        }
    }
    let lower = st.lower_exact(frames, nbf_c);
    lower.recover();
    let post = st.snapshot();
    vcover!("C05", pre.entries[0] == HUGE && pre.rows[0][0] != 0, "marker over a partly filled bitfield (crash inside a split)");
    vcover!("C05", pre.entries[0] != HUGE && pre.entries[0] as usize != crate::bitfield::verif_bitfield::zeros(&pre.rows[0]), "counter out of sync with the bitfield");
    for h in 0..NH {
        if h >= nbf {
            vassert!("C05", post.entries[h] == 0, "recovery leaves entries beyond the managed range alone");
            continue;
        }
        if pre.entries[h] == HUGE {
            vassert!("C05", post.entries[h] == HUGE, "recovery keeps a whole-allocated huge frame allocated");
            for r in 0..NROWS {
                vassert!("C05", post.rows[h][r] == 0, "recovery clears the bitfield under a huge marker");
            }
        } else {
            for r in 0..NROWS {
                vassert!("C05", post.rows[h][r] == pre.rows[h][r], "recovery never changes the allocation bit of a frame outside whole-allocated huge frames");
            }
            vassert!("C05", post.entries[h] as usize == crate::bitfield::verif_bitfield::zeros(&pre.rows[h]), "recovery sets every counter to the number of free frames of its bitfield");
        }
    }
    vassert!("C05", check_exact_inv(&post, frames), "the recovered state satisfies the representation invariant");
}

// ---- crash inside one call: snapshot before the K-th write to the persistent metadata --------
static mut CRASH_AT: usize = usize::MAX;
static mut CRASH_WRITES: usize = 0;
static mut CRASH_SNAP: Option<LModel<NH1>> = None;
static mut CRASH_ST: *const LState<1, NH1> = core::ptr::null();
fn crash_pre(_addr: *const u8, _size: usize, write: bool) {
    unsafe {
        if write {
            if CRASH_WRITES == CRASH_AT {
                CRASH_SNAP = Some((*CRASH_ST).snapshot());
            }
            CRASH_WRITES += 1;
        }
    }
}
/// One call (get / targeted get / put of a small order, or a huge-order call) from a J state;
/// execution stops before an arbitrary write (or after the call); the real `recover()` runs on
/// the metadata as it is at that instant.
fn l_crash_body(k: usize, op: u8) {
    let st = LState::<1, NH1>::any();
    let frames = any_frames::<1>();
    let pre = st.snapshot();
    assume_inv(&pre, frames);
    let lower = st.lower_exact(frames, TREE_HUGE);
    let f: usize = kani::any();
    kani::assume(f < TREE_FRAMES && f % (1 << k) == 0 && f + (1 << k) <= frames);
    assume_block_instances(&pre, f, k);
    // an untouched witness block: one base frame anywhere else
    let w: usize = kani::any();
    kani::assume(w < frames);
    unsafe {
        CRASH_AT = kani::any();
        CRASH_WRITES = 0;
        CRASH_SNAP = None;
        CRASH_ST = &st;
        ON_PRE = Some(crash_pre);
    }
    install(Mode::Seq);
    let r = match op {
        0 => lower.get(RowId(0), k, None).map(|_| ()),
        1 => lower.get(RowId(0), k, Some(FrameId(f))).map(|_| ()),
        _ => lower.put(FrameId(f), k),
    };
    set_mode(Mode::Off);
    let total = unsafe { CRASH_WRITES };
    let crashed = unsafe { CRASH_SNAP };
    vcover!("C05", crashed.is_some() && r.is_ok() && unsafe { CRASH_AT } > 0, "crash between two writes of a successful call");
    // the state at the crash point (or the final state if the crash comes after the call)
    let at = match crashed {
        Some(s) => s,
        None => st.snapshot(),
    };
    kani::assume(crashed.is_some() || unsafe { CRASH_AT } >= total);
    st.restore(&at);
    lower.recover();
    let rec = st.snapshot();
    // which frames the call may touch: for an untargeted allocation we do not know the block in
    // advance, so "touched" is any frame whose bit differs between pre-state and final state, or
    // the whole huge frame for marker operations; the witness must be outside.
    let fin_rows_changed = |g: usize| {
        let fin = if crashed.is_some() { None } else { Some(()) };
        let _ = fin;
        false || g == usize::MAX
    };
    let _ = fin_rows_changed;
    let wh = w / HUGE_FRAMES;
    let wbit = |m: &LModel<NH1>| m.rows[wh][w % HUGE_FRAMES / 64] >> (w % 64) & 1 == 1;
    let touched_huge = if op == 0 { 0 } else { f / HUGE_FRAMES };
    let in_target = op != 0 && w >= f && w < f + (1 << k);
    if op != 0 && !in_target && !(k >= HUGE_ORDER && wh == touched_huge) {
        if pre.huge(wh) {
            // part of a whole-allocated huge frame: stays allocated (split or not)
            vassert!("C05", rec.huge(wh) || wbit(&rec), "a frame allocated before the call and not named by it is still allocated after crash and recovery");
        } else {
            vassert!("C05", wbit(&rec) == wbit(&pre) && !rec.huge(wh), "crash and recovery leave the status of every frame not named by the call unchanged");
        }
    }
    if op == 0 {
        // untargeted: a frame allocated before stays allocated; a free frame stays free unless it
        // belongs to the one block the call was taking
        if pre.huge(wh) || wbit(&pre) {
            vassert!("C05", rec.huge(wh) || wbit(&rec), "a frame allocated before the call is still allocated after crash and recovery");
        }
    }
    vassert!("C05", check_exact_inv(&rec, frames), "after a crash at any write, recovery re-establishes the representation invariant");
    if crashed.is_none() && r.is_ok() && op != 2 && k < HUGE_ORDER && op == 1 {
        vassert!("C05", rec.small_alloc(f, k), "a completed allocation survives crash and recovery");
    }
    if crashed.is_none() && r.is_ok() && op == 2 && k < HUGE_ORDER {
        vassert!("C05", rec.small_free(f, k), "a completed free survives crash and recovery");
    }
}

// ---- generated: one harness per concrete order (symbolic orders make CBMC explore dead match arms) ----

// @h props=C04,C09,C18 tier=quick geom=1 tgeom=2 panics=C09 mem=C18
#[kani::proof]
#[kani::unwind(18)]
fn l_queries_frame() {
    l_queries_frame_body::<1, NH1>()
}
#[kani::proof]
#[kani::unwind(18)]
fn l_queries_stats() {
    l_queries_stats_body::<2, NH2>()
}
#[kani::proof]
#[kani::unwind(18)]
fn l_is_free_orders() {
    l_is_free_orders_body::<1, NH1>()
}

// @h props=C01,C02,C12,C09,C18 tier=quick geom=1 tgeom=2 panics=C09 mem=C18
#[kani::proof]
#[kani::unwind(18)]
fn l_get_o0() {
    l_get_body::<1, NH1>(0)
}
#[kani::proof]
#[kani::unwind(18)]
fn l_get_o1() {
    l_get_body::<1, NH1>(1)
}
#[kani::proof]
#[kani::unwind(18)]
fn l_get_o2() {
    l_get_body::<1, NH1>(2)
}
#[kani::proof]
#[kani::unwind(18)]
fn l_get_o3() {
    l_get_body::<1, NH1>(3)
}
#[kani::proof]
#[kani::unwind(18)]
fn l_get_o4() {
    l_get_body::<1, NH1>(4)
}
#[kani::proof]
#[kani::unwind(18)]
fn l_get_o5() {
    l_get_body::<1, NH1>(5)
}
#[kani::proof]
#[kani::unwind(18)]
fn l_get_o6() {
    l_get_body::<1, NH1>(6)
}
#[kani::proof]
#[kani::unwind(18)]
fn l_get_o7() {
    l_get_body::<1, NH1>(7)
}
#[kani::proof]
#[kani::unwind(18)]
fn l_get_o8() {
    l_get_body::<1, NH1>(8)
}
#[kani::proof]
#[kani::unwind(18)]
fn l_get_o9() {
    l_get_body::<1, NH1>(9)
}

// @h props=C01,C02,C12 tier=quick geom=1 tgeom= panics=C09 mem=C18
#[kani::proof]
#[kani::unwind(18)]
fn l_get_t2_o0() {
    l_get_body::<2, NH2>(0)
}
#[kani::proof]
#[kani::unwind(18)]
fn l_get_t2_o9() {
    l_get_body::<2, NH2>(9)
}

// @h props=C01,C02,C12 tier=thorough geom=1 tgeom= panics=C09 mem=C18
#[kani::proof]
#[kani::unwind(18)]
fn l_get_t2_o1() {
    l_get_body::<2, NH2>(1)
}
#[kani::proof]
#[kani::unwind(18)]
fn l_get_t2_o3() {
    l_get_body::<2, NH2>(3)
}
#[kani::proof]
#[kani::unwind(18)]
fn l_get_t2_o5() {
    l_get_body::<2, NH2>(5)
}
#[kani::proof]
#[kani::unwind(18)]
fn l_get_t2_o6() {
    l_get_body::<2, NH2>(6)
}
#[kani::proof]
#[kani::unwind(18)]
fn l_get_t2_o7() {
    l_get_body::<2, NH2>(7)
}
#[kani::proof]
#[kani::unwind(18)]
fn l_get_t2_o8() {
    l_get_body::<2, NH2>(8)
}

// @h props=C01,C02,C12 tier=thorough geom=2 tgeom=4 panics=C09 mem=C18
#[kani::proof]
#[kani::unwind(18)]
fn l_get_o10() {
    l_get_body::<1, NH1>(10)
}

// @h props=C01,C02,C12 tier=thorough geom=4 tgeom= panics=C09 mem=C18
#[kani::proof]
#[kani::unwind(18)]
fn l_get_o11() {
    l_get_body::<1, NH1>(11)
}

// @h props=C01,C02,C12 tier=thorough geom=2 tgeom= panics=C09 mem=C18
#[kani::proof]
#[kani::unwind(18)]
fn l_get_t2_o10() {
    l_get_body::<2, NH2>(10)
}

// @h props=C02 tier=quick geom=1 tgeom=2 panics=C09 mem=C18
#[kani::proof]
#[kani::unwind(18)]
fn l_get_at_o0() {
    l_get_at_body::<1, NH1>(0)
}
#[kani::proof]
#[kani::unwind(18)]
fn l_get_at_o1() {
    l_get_at_body::<1, NH1>(1)
}
#[kani::proof]
#[kani::unwind(18)]
fn l_get_at_o2() {
    l_get_at_body::<1, NH1>(2)
}
#[kani::proof]
#[kani::unwind(18)]
fn l_get_at_o3() {
    l_get_at_body::<1, NH1>(3)
}
#[kani::proof]
#[kani::unwind(18)]
fn l_get_at_o4() {
    l_get_at_body::<1, NH1>(4)
}
#[kani::proof]
#[kani::unwind(18)]
fn l_get_at_o5() {
    l_get_at_body::<1, NH1>(5)
}
#[kani::proof]
#[kani::unwind(18)]
fn l_get_at_o6() {
    l_get_at_body::<1, NH1>(6)
}
#[kani::proof]
#[kani::unwind(18)]
fn l_get_at_o7() {
    l_get_at_body::<1, NH1>(7)
}
#[kani::proof]
#[kani::unwind(18)]
fn l_get_at_o9() {
    l_get_at_body::<1, NH1>(9)
}

// @h props=C01,C02 tier=thorough geom=1,2 tgeom= panics=C09 mem=C18
#[kani::proof]
#[kani::unwind(18)]
fn l_get_at_o8() {
    l_get_at_body::<1, NH1>(8)
}

// @h props=C02 tier=quick geom=1 tgeom= panics=C09 mem=C18
#[kani::proof]
#[kani::unwind(18)]
fn l_get_at_t2_o0() {
    l_get_at_body::<2, NH2>(0)
}
#[kani::proof]
#[kani::unwind(18)]
fn l_get_at_t2_o9() {
    l_get_at_body::<2, NH2>(9)
}

// @h props=C01,C02 tier=thorough geom=1 tgeom= panics=C09 mem=C18
#[kani::proof]
#[kani::unwind(18)]
fn l_get_at_t2_o1() {
    l_get_at_body::<2, NH2>(1)
}
#[kani::proof]
#[kani::unwind(18)]
fn l_get_at_t2_o3() {
    l_get_at_body::<2, NH2>(3)
}
#[kani::proof]
#[kani::unwind(18)]
fn l_get_at_t2_o5() {
    l_get_at_body::<2, NH2>(5)
}
#[kani::proof]
#[kani::unwind(18)]
fn l_get_at_t2_o6() {
    l_get_at_body::<2, NH2>(6)
}
#[kani::proof]
#[kani::unwind(18)]
fn l_get_at_t2_o7() {
    l_get_at_body::<2, NH2>(7)
}
#[kani::proof]
#[kani::unwind(18)]
fn l_get_at_t2_o8() {
    l_get_at_body::<2, NH2>(8)
}

// @h props=C01,C02 tier=thorough geom=2 tgeom=4 panics=C09 mem=C18
#[kani::proof]
#[kani::unwind(18)]
fn l_get_at_o10() {
    l_get_at_body::<1, NH1>(10)
}

// @h props=C01,C02 tier=thorough geom=4 tgeom= panics=C09 mem=C18
#[kani::proof]
#[kani::unwind(18)]
fn l_get_at_o11() {
    l_get_at_body::<1, NH1>(11)
}

// @h props=C01,C02 tier=thorough geom=2 tgeom= panics=C09 mem=C18
#[kani::proof]
#[kani::unwind(18)]
fn l_get_at_t2_o10() {
    l_get_at_body::<2, NH2>(10)
}

// @h props=C02,C09,C18 tier=quick geom=1 tgeom=2 panics=C09 mem=C18
#[kani::proof]
#[kani::unwind(18)]
fn l_put_o0() {
    l_put_body::<1, NH1>(0)
}
#[kani::proof]
#[kani::unwind(18)]
fn l_put_o1() {
    l_put_body::<1, NH1>(1)
}
#[kani::proof]
#[kani::unwind(18)]
fn l_put_o2() {
    l_put_body::<1, NH1>(2)
}
#[kani::proof]
#[kani::unwind(18)]
fn l_put_o3() {
    l_put_body::<1, NH1>(3)
}
#[kani::proof]
#[kani::unwind(18)]
fn l_put_o4() {
    l_put_body::<1, NH1>(4)
}
#[kani::proof]
#[kani::unwind(18)]
fn l_put_o5() {
    l_put_body::<1, NH1>(5)
}
#[kani::proof]
#[kani::unwind(18)]
fn l_put_o6() {
    l_put_body::<1, NH1>(6)
}
#[kani::proof]
#[kani::unwind(18)]
fn l_put_o9() {
    l_put_body::<1, NH1>(9)
}

// @h props=C02 tier=thorough geom=1,2 tgeom= panics=C09 mem=C18
#[kani::proof]
#[kani::unwind(18)]
fn l_put_o7() {
    l_put_body::<1, NH1>(7)
}
#[kani::proof]
#[kani::unwind(18)]
fn l_put_o8() {
    l_put_body::<1, NH1>(8)
}

// @h props=C02 tier=quick geom=1 tgeom= panics=C09 mem=C18
#[kani::proof]
#[kani::unwind(18)]
fn l_put_t2_o0() {
    l_put_body::<2, NH2>(0)
}
#[kani::proof]
#[kani::unwind(18)]
fn l_put_t2_o9() {
    l_put_body::<2, NH2>(9)
}

// @h props=C02 tier=thorough geom=1 tgeom= panics=C09 mem=C18
#[kani::proof]
#[kani::unwind(18)]
fn l_put_t2_o1() {
    l_put_body::<2, NH2>(1)
}
#[kani::proof]
#[kani::unwind(18)]
fn l_put_t2_o3() {
    l_put_body::<2, NH2>(3)
}
#[kani::proof]
#[kani::unwind(18)]
fn l_put_t2_o5() {
    l_put_body::<2, NH2>(5)
}
#[kani::proof]
#[kani::unwind(18)]
fn l_put_t2_o6() {
    l_put_body::<2, NH2>(6)
}
#[kani::proof]
#[kani::unwind(18)]
fn l_put_t2_o7() {
    l_put_body::<2, NH2>(7)
}
#[kani::proof]
#[kani::unwind(18)]
fn l_put_t2_o8() {
    l_put_body::<2, NH2>(8)
}

// @h props=C02 tier=thorough geom=2 tgeom=4 panics=C09 mem=C18
#[kani::proof]
#[kani::unwind(18)]
fn l_put_o10() {
    l_put_body::<1, NH1>(10)
}

// @h props=C02 tier=thorough geom=4 tgeom= panics=C09 mem=C18
#[kani::proof]
#[kani::unwind(18)]
fn l_put_o11() {
    l_put_body::<1, NH1>(11)
}

// @h props=C02 tier=thorough geom=2 tgeom= panics=C09 mem=C18
#[kani::proof]
#[kani::unwind(18)]
fn l_put_t2_o10() {
    l_put_body::<2, NH2>(10)
}

// ---- generated: interference harnesses ----
// (orders 7/8 at this layer exceed the memory cap; their multi-row paths are covered under
// interference at the bitfield layer: bi_set_first_zeros_o7/o8, bi_toggle_*_o7/o8)

// @h props=C01,C03,C04,C02,C05 tier=quick geom=1 panics=C03 mem=C18 unwind=C21
#[kani::proof]
#[kani::unwind(12)]
#[kani::stub(core::hint::spin_loop, crate::verif_support::spin_loop_model)]
fn li_get_o0() {
    li_get_body(0, false, false)
}
#[kani::proof]
#[kani::unwind(12)]
#[kani::stub(core::hint::spin_loop, crate::verif_support::spin_loop_model)]
fn li_get_o9() {
    li_get_body(9, false, false)
}

// @h props=C01,C03,C04,C02 tier=thorough geom=1 panics=C03 mem=C18 unwind=C21
#[kani::proof]
#[kani::unwind(12)]
#[kani::stub(core::hint::spin_loop, crate::verif_support::spin_loop_model)]
fn li_get_o1() {
    li_get_body(1, false, false)
}
#[kani::proof]
#[kani::unwind(12)]
#[kani::stub(core::hint::spin_loop, crate::verif_support::spin_loop_model)]
fn li_get_o2() {
    li_get_body(2, false, false)
}
#[kani::proof]
#[kani::unwind(12)]
#[kani::stub(core::hint::spin_loop, crate::verif_support::spin_loop_model)]
fn li_get_o3() {
    li_get_body(3, false, false)
}
#[kani::proof]
#[kani::unwind(12)]
#[kani::stub(core::hint::spin_loop, crate::verif_support::spin_loop_model)]
fn li_get_o4() {
    li_get_body(4, false, false)
}
#[kani::proof]
#[kani::unwind(12)]
#[kani::stub(core::hint::spin_loop, crate::verif_support::spin_loop_model)]
fn li_get_o5() {
    li_get_body(5, false, false)
}
#[kani::proof]
#[kani::unwind(12)]
#[kani::stub(core::hint::spin_loop, crate::verif_support::spin_loop_model)]
fn li_get_o6() {
    li_get_body(6, false, false)
}

// @h props=C01,C03,C04,C02 tier=quick geom=1 panics=C03 mem=C18 unwind=C21
#[kani::proof]
#[kani::unwind(12)]
#[kani::stub(core::hint::spin_loop, crate::verif_support::spin_loop_model)]
fn li_get_at_o0() {
    li_get_body(0, true, false)
}
#[kani::proof]
#[kani::unwind(12)]
#[kani::stub(core::hint::spin_loop, crate::verif_support::spin_loop_model)]
fn li_get_at_o3() {
    li_get_body(3, true, false)
}
#[kani::proof]
#[kani::unwind(12)]
#[kani::stub(core::hint::spin_loop, crate::verif_support::spin_loop_model)]
fn li_get_at_o9() {
    li_get_body(9, true, false)
}

// @h props=C01,C03,C04,C02 tier=thorough geom=1 panics=C03 mem=C18 unwind=C21
#[kani::proof]
#[kani::unwind(12)]
#[kani::stub(core::hint::spin_loop, crate::verif_support::spin_loop_model)]
fn li_get_at_o1() {
    li_get_body(1, true, false)
}
#[kani::proof]
#[kani::unwind(12)]
#[kani::stub(core::hint::spin_loop, crate::verif_support::spin_loop_model)]
fn li_get_at_o2() {
    li_get_body(2, true, false)
}
#[kani::proof]
#[kani::unwind(12)]
#[kani::stub(core::hint::spin_loop, crate::verif_support::spin_loop_model)]
fn li_get_at_o4() {
    li_get_body(4, true, false)
}
#[kani::proof]
#[kani::unwind(12)]
#[kani::stub(core::hint::spin_loop, crate::verif_support::spin_loop_model)]
fn li_get_at_o5() {
    li_get_body(5, true, false)
}
#[kani::proof]
#[kani::unwind(12)]
#[kani::stub(core::hint::spin_loop, crate::verif_support::spin_loop_model)]
fn li_get_at_o6() {
    li_get_body(6, true, false)
}
#[kani::proof]
#[kani::unwind(12)]
#[kani::stub(core::hint::spin_loop, crate::verif_support::spin_loop_model)]
fn li_get_at_o7() {
    li_get_body(7, true, false)
}
#[kani::proof]
#[kani::unwind(12)]
#[kani::stub(core::hint::spin_loop, crate::verif_support::spin_loop_model)]
fn li_get_at_o8() {
    li_get_body(8, true, false)
}

// @h props=C01,C03,C04,C05 tier=quick geom=1 panics=C03 mem=C18 unwind=C21
#[kani::proof]
#[kani::unwind(12)]
#[kani::stub(core::hint::spin_loop, crate::verif_support::spin_loop_model)]
fn li_put_o0() {
    li_put_body(0, 0, false)
}
#[kani::proof]
#[kani::unwind(12)]
#[kani::stub(core::hint::spin_loop, crate::verif_support::spin_loop_model)]
fn li_put_o6() {
    li_put_body(6, 0, false)
}

// @h props=C01,C03,C04 tier=thorough geom=1 panics=C03 mem=C18 unwind=C21
#[kani::proof]
#[kani::unwind(12)]
#[kani::stub(core::hint::spin_loop, crate::verif_support::spin_loop_model)]
fn li_put_o1() {
    li_put_body(1, 0, false)
}
#[kani::proof]
#[kani::unwind(12)]
#[kani::stub(core::hint::spin_loop, crate::verif_support::spin_loop_model)]
fn li_put_o2() {
    li_put_body(2, 0, false)
}
#[kani::proof]
#[kani::unwind(12)]
#[kani::stub(core::hint::spin_loop, crate::verif_support::spin_loop_model)]
fn li_put_o3() {
    li_put_body(3, 0, false)
}
#[kani::proof]
#[kani::unwind(12)]
#[kani::stub(core::hint::spin_loop, crate::verif_support::spin_loop_model)]
fn li_put_o4() {
    li_put_body(4, 0, false)
}
#[kani::proof]
#[kani::unwind(12)]
#[kani::stub(core::hint::spin_loop, crate::verif_support::spin_loop_model)]
fn li_put_o5() {
    li_put_body(5, 0, false)
}
#[kani::proof]
#[kani::unwind(12)]
#[kani::stub(core::hint::spin_loop, crate::verif_support::spin_loop_model)]
fn li_put_o7() {
    li_put_body(7, 0, false)
}
#[kani::proof]
#[kani::unwind(12)]
#[kani::stub(core::hint::spin_loop, crate::verif_support::spin_loop_model)]
fn li_put_o8() {
    li_put_body(8, 0, false)
}

// @h props=C01,C03,C04,C05 tier=quick geom=1 panics=C03 mem=C18 unwind=C21 role=put_part_of_shared_huge
#[kani::proof]
#[kani::unwind(12)]
#[kani::stub(core::hint::spin_loop, crate::verif_support::spin_loop_model)]
fn li_put_part_o3() {
    li_put_body(3, 1, false)
}

// @h props=C01,C03,C04 tier=thorough geom=1 panics=C03 mem=C18 unwind=C21 role=put_part_of_shared_huge
#[kani::proof]
#[kani::unwind(12)]
#[kani::stub(core::hint::spin_loop, crate::verif_support::spin_loop_model)]
fn li_put_part_o0() {
    li_put_body(0, 1, false)
}
#[kani::proof]
#[kani::unwind(12)]
#[kani::stub(core::hint::spin_loop, crate::verif_support::spin_loop_model)]
fn li_put_part_o1() {
    li_put_body(1, 1, false)
}
#[kani::proof]
#[kani::unwind(12)]
#[kani::stub(core::hint::spin_loop, crate::verif_support::spin_loop_model)]
fn li_put_part_o2() {
    li_put_body(2, 1, false)
}
#[kani::proof]
#[kani::unwind(12)]
#[kani::stub(core::hint::spin_loop, crate::verif_support::spin_loop_model)]
fn li_put_part_o4() {
    li_put_body(4, 1, false)
}
#[kani::proof]
#[kani::unwind(12)]
#[kani::stub(core::hint::spin_loop, crate::verif_support::spin_loop_model)]
fn li_put_part_o5() {
    li_put_body(5, 1, false)
}
#[kani::proof]
#[kani::unwind(12)]
#[kani::stub(core::hint::spin_loop, crate::verif_support::spin_loop_model)]
fn li_put_part_o6() {
    li_put_body(6, 1, false)
}

// @h props=C01,C03,C04,C02,C05 tier=quick geom=1 panics=C03 mem=C18 unwind=C21
#[kani::proof]
#[kani::unwind(12)]
#[kani::stub(core::hint::spin_loop, crate::verif_support::spin_loop_model)]
fn li_put_whole_o0() {
    li_put_body(0, 2, false)
}
#[kani::proof]
#[kani::unwind(12)]
#[kani::stub(core::hint::spin_loop, crate::verif_support::spin_loop_model)]
fn li_put_whole_o9() {
    li_put_body(9, 2, false)
}

// @h props=C01,C03,C04,C02 tier=thorough geom=1 panics=C03 mem=C18 unwind=C21
#[kani::proof]
#[kani::unwind(12)]
#[kani::stub(core::hint::spin_loop, crate::verif_support::spin_loop_model)]
fn li_put_whole_o3() {
    li_put_body(3, 2, false)
}
#[kani::proof]
#[kani::unwind(12)]
#[kani::stub(core::hint::spin_loop, crate::verif_support::spin_loop_model)]
fn li_put_whole_o6() {
    li_put_body(6, 2, false)
}
#[kani::proof]
#[kani::unwind(12)]
#[kani::stub(core::hint::spin_loop, crate::verif_support::spin_loop_model)]
fn li_put_whole_o7() {
    li_put_body(7, 2, false)
}

// @h props=C21 tier=quick geom=1 panics=C21 mem=C18 unwind=C21
#[kani::proof]
#[kani::unwind(12)]
#[kani::stub(core::hint::spin_loop, crate::verif_support::spin_loop_model)]
fn lf_get_o0() {
    li_get_body(0, false, true)
}
#[kani::proof]
#[kani::unwind(12)]
#[kani::stub(core::hint::spin_loop, crate::verif_support::spin_loop_model)]
fn lf_get_o9() {
    li_get_body(9, false, true)
}

// @h props=C21 tier=quick geom=1 panics=C21 mem=C18 unwind=C21
#[kani::proof]
#[kani::unwind(12)]
#[kani::stub(core::hint::spin_loop, crate::verif_support::spin_loop_model)]
fn lf_get_at_o3() {
    li_get_body(3, true, true)
}

// @h props=C21 tier=quick geom=1 panics=C21 mem=C18 unwind=C21
#[kani::proof]
#[kani::unwind(12)]
#[kani::stub(core::hint::spin_loop, crate::verif_support::spin_loop_model)]
fn lf_put_o0() {
    li_put_body(0, 0, true)
}

// @h props=C21 tier=quick geom=1 panics=C21 mem=C18 unwind=C21 role=put_part_of_shared_huge
#[kani::proof]
#[kani::unwind(12)]
#[kani::stub(core::hint::spin_loop, crate::verif_support::spin_loop_model)]
fn lf_put_part_o0() {
    li_put_body(0, 1, true)
}

// @h props=C21 tier=quick geom=1 panics=C21 mem=C18 unwind=C21
#[kani::proof]
#[kani::unwind(12)]
#[kani::stub(core::hint::spin_loop, crate::verif_support::spin_loop_model)]
fn lf_put_whole_o9() {
    li_put_body(9, 2, true)
}
#[kani::proof]
#[kani::unwind(12)]
#[kani::stub(core::hint::spin_loop, crate::verif_support::spin_loop_model)]
fn lf_put_whole_o3() {
    li_put_body(3, 2, true)
}

// @h props=C21 tier=thorough geom=1 panics=C21 mem=C18 unwind=C21
#[kani::proof]
#[kani::unwind(12)]
#[kani::stub(core::hint::spin_loop, crate::verif_support::spin_loop_model)]
fn lf_get_o3() {
    li_get_body(3, false, true)
}
#[kani::proof]
#[kani::unwind(12)]
#[kani::stub(core::hint::spin_loop, crate::verif_support::spin_loop_model)]
fn lf_get_o6() {
    li_get_body(6, false, true)
}

// @h props=C21 tier=thorough geom=1 panics=C21 mem=C18 unwind=C21
#[kani::proof]
#[kani::unwind(12)]
#[kani::stub(core::hint::spin_loop, crate::verif_support::spin_loop_model)]
fn lf_put_o3() {
    li_put_body(3, 0, true)
}
#[kani::proof]
#[kani::unwind(12)]
#[kani::stub(core::hint::spin_loop, crate::verif_support::spin_loop_model)]
fn lf_put_o6() {
    li_put_body(6, 0, true)
}

// ---- generated: initialisation / recovery / crash ----
// one harness per number of bitfields the frame count needs (concrete slice lengths), the
// frame count itself symbolic inside that interval
// @h props=C06,C09,C18 tier=quick geom=1 panics=C09 mem=C18
#[kani::proof]
#[kani::unwind(9)]
fn l_init_free_all_0of1() {
    l_init_body::<1, NH1>(false, 0)
}
#[kani::proof]
#[kani::unwind(9)]
fn l_init_reserve_all_0of1() {
    l_init_body::<1, NH1>(true, 0)
}
#[kani::proof]
#[kani::unwind(9)]
fn l_init_free_all_1of1() {
    l_init_body::<1, NH1>(false, 1)
}
#[kani::proof]
#[kani::unwind(9)]
fn l_init_reserve_all_1of1() {
    l_init_body::<1, NH1>(true, 1)
}
#[kani::proof]
#[kani::unwind(9)]
fn l_init_free_all_t2() {
    l_init_body::<2, NH2>(false, 2)
}
#[kani::proof]
#[kani::unwind(9)]
fn l_init_reserve_all_t2() {
    l_init_body::<2, NH2>(true, 2)
}
// @h props=C06,C09,C18 tier=quick geom=2 panics=C09 mem=C18
#[kani::proof]
#[kani::unwind(9)]
fn l_init_free_all_1of2() {
    l_init_body::<1, NH1>(false, 1)
}
#[kani::proof]
#[kani::unwind(9)]
fn l_init_reserve_all_1of2() {
    l_init_body::<1, NH1>(true, 1)
}
#[kani::proof]
#[kani::unwind(9)]
fn l_init_free_all_2of2() {
    l_init_body::<1, NH1>(false, 2)
}
#[kani::proof]
#[kani::unwind(9)]
fn l_init_reserve_all_2of2() {
    l_init_body::<1, NH1>(true, 2)
}
// @h props=C06 tier=thorough geom=2 panics=C09 mem=C18
#[kani::proof]
#[kani::unwind(9)]
fn l_init_free_all_3of2x2() {
    l_init_body::<2, NH2>(false, 3)
}
#[kani::proof]
#[kani::unwind(9)]
fn l_init_reserve_all_3of2x2() {
    l_init_body::<2, NH2>(true, 3)
}
// @h props=C06 tier=thorough geom=4 panics=C09 mem=C18
#[kani::proof]
#[kani::unwind(9)]
fn l_init_free_all_1of4() {
    l_init_body::<1, NH1>(false, 1)
}
#[kani::proof]
#[kani::unwind(9)]
fn l_init_reserve_all_1of4() {
    l_init_body::<1, NH1>(true, 1)
}
#[kani::proof]
#[kani::unwind(9)]
fn l_init_free_all_3of4() {
    l_init_body::<1, NH1>(false, 3)
}
#[kani::proof]
#[kani::unwind(9)]
fn l_init_reserve_all_3of4() {
    l_init_body::<1, NH1>(true, 3)
}
#[kani::proof]
#[kani::unwind(9)]
fn l_init_free_all_4of4() {
    l_init_body::<1, NH1>(false, 4)
}
#[kani::proof]
#[kani::unwind(9)]
fn l_init_reserve_all_4of4() {
    l_init_body::<1, NH1>(true, 4)
}
// @h props=C05 tier=quick geom=1 panics=C05 mem=C18
#[kani::proof]
#[kani::unwind(9)]
fn l_recover_1of1() {
    l_recover_body::<1, NH1>(1)
}
// (geometry 2: a last tree with one or two of its two huge frames)
// @h props=C05,C18 tier=quick geom=2 panics=C05 mem=C18
#[kani::proof]
#[kani::unwind(9)]
fn l_recover_1of2() {
    l_recover_body::<1, NH1>(1)
}
#[kani::proof]
#[kani::unwind(9)]
fn l_recover_2of2() {
    l_recover_body::<1, NH1>(2)
}
// @h props=C05 tier=thorough geom=4 panics=C05 mem=C18
#[kani::proof]
#[kani::unwind(9)]
fn l_recover_3of4() {
    l_recover_body::<1, NH1>(3)
}

// @h props=C05 tier=thorough geom=1 panics=C09 mem=C18
#[kani::proof]
#[kani::unwind(9)]
fn l_crash_get_o0() {
    l_crash_body(0, 0)
}
#[kani::proof]
#[kani::unwind(9)]
fn l_crash_get_o9() {
    l_crash_body(9, 0)
}

// @h props=C05 tier=thorough geom=1 panics=C09 mem=C18
#[kani::proof]
#[kani::unwind(9)]
fn l_crash_get_at_o3() {
    l_crash_body(3, 1)
}

// @h props=C05 tier=thorough geom=1 panics=C09 mem=C18
#[kani::proof]
#[kani::unwind(9)]
fn l_crash_put_o0() {
    l_crash_body(0, 2)
}
#[kani::proof]
#[kani::unwind(9)]
fn l_crash_put_o9() {
    l_crash_body(9, 2)
}

// @h props=C05 tier=thorough geom=1 panics=C09 mem=C18
#[kani::proof]
#[kani::unwind(9)]
fn l_crash_get_o3() {
    l_crash_body(3, 0)
}
#[kani::proof]
#[kani::unwind(9)]
fn l_crash_get_o6() {
    l_crash_body(6, 0)
}
#[kani::proof]
#[kani::unwind(9)]
fn l_crash_get_o7() {
    l_crash_body(7, 0)
}

// @h props=C05 tier=thorough geom=1 panics=C09 mem=C18
#[kani::proof]
#[kani::unwind(9)]
fn l_crash_get_at_o0() {
    l_crash_body(0, 1)
}
#[kani::proof]
#[kani::unwind(9)]
fn l_crash_get_at_o6() {
    l_crash_body(6, 1)
}
#[kani::proof]
#[kani::unwind(9)]
fn l_crash_get_at_o7() {
    l_crash_body(7, 1)
}
#[kani::proof]
#[kani::unwind(9)]
fn l_crash_get_at_o9() {
    l_crash_body(9, 1)
}

// @h props=C05 tier=thorough geom=1 panics=C09 mem=C18
#[kani::proof]
#[kani::unwind(9)]
fn l_crash_put_o3() {
    l_crash_body(3, 2)
}
#[kani::proof]
#[kani::unwind(9)]
fn l_crash_put_o6() {
    l_crash_body(6, 2)
}
#[kani::proof]
#[kani::unwind(9)]
fn l_crash_put_o7() {
    l_crash_body(7, 2)
}
