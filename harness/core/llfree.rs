//! Harnesses for core/src/llfree.rs: argument validation (C08), metadata validation, and the
//! upper-level components over symbolic trees / slots with the real lower allocator (U layer).
#![allow(dead_code, unused_imports)]
use super::*;
use crate::local::verif_local::{get_slot, set_slot, LOCAL_SIZE};
use crate::lower::verif_lower::{LModel, LState, NH1};
use crate::trees::verif_trees::TreeArr;
use crate::verif_support::*;

#[repr(align(64))]
pub(crate) struct Buf<const N: usize>(pub [u8; N]);

/// A classing with `n` classes 0..n and symbolic slot counts 0..=2 per class.
fn any_small_classing(policy: PolicyFn) -> (Classing, usize) {
    let n: usize = kani::any();
    kani::assume(n >= 1 && n <= 3);
    let c0: usize = kani::any();
    let c1: usize = kani::any();
    let c2: usize = kani::any();
    kani::assume(c0 <= 2 && c1 <= 2 && c2 <= 2);
    // (constant-length slices: a copy_from_slice of symbolic length is modelled imprecisely by CBMC)
    let c = match n {
        1 => Classing::new(&[(Class(0), c0)], Class(0), policy),
        2 => Classing::new(&[(Class(0), c0), (Class(1), c1)], Class(0), policy),
        _ => Classing::new(&[(Class(0), c0), (Class(1), c1), (Class(2), c2)], Class(0), policy),
    };
    (c, n)
}

/// Argument validation: `check`, and `get`/`put` refusing before touching anything.
/// The allocator has NO metadata behind it (empty tables): any access past `check` with invalid
/// arguments would index an empty slice and be reported.
// @h props=C08 tier=quick geom=4 panics=C08 mem=C18
#[kani::proof]
#[kani::unwind(5)]
fn c08_check_arguments() {
    let frames: usize = kani::any();
    let (classing, n) = any_small_classing(zeroed_policy);
    let mut lbuf = Buf([0u8; 6 * 64]);
    let no_trees = TreeArr::<0>::zeroed();
    let llfree = LLFree {
        locals: Locals::new(&mut lbuf.0, &classing).unwrap(),
        lower: crate::lower::verif_lower::lower_without_metadata(frames),
        trees: no_trees.trees(Class(0)),
        policy: classing.policy,
    };
    let frame: usize = kani::any();
    let order: usize = kani::any();
    let class: u8 = kani::any();
    kani::assume(class < 8);
    let req = Request::new(order, Class(class), None);
    // mathematical (no wrap-around) version of the four conditions
    let bad_order = order > TREE_ORDER;
    let size = if bad_order { 0u128 } else { 1u128 << order };
    let out = frame as u128 + size > frames as u128;
    let misaligned = !bad_order && frame % (1usize << order) != 0;
    let bad_class = class as usize >= n;
    let invalid = bad_order || out || misaligned || bad_class;
    vcover!("C08", !invalid, "valid arguments");
    vcover!("C08", out && !bad_order && frame > usize::MAX - 4, "frame near the end of the address space");
    let r = llfree.check(FrameId(frame), &req);
    vassert!("C08", r.is_err() == invalid, "arguments are rejected exactly when the order is too large, the block leaves the managed range, the frame is misaligned or the class is not configured");
    if let Err(e) = r {
        vassert!("C08", e == Error::Argument, "rejection is an invalid-argument error");
    }
    if invalid {
        vassert!("C08", llfree.put(FrameId(frame), req) == Err(Error::Argument), "free with invalid arguments is rejected before anything is touched");
        let g = llfree.get(Some(FrameId(frame)), req);
        vassert!("C08", g.is_err_and(|e| e == Error::Argument), "targeted allocation with invalid arguments is rejected before anything is touched");
        if bad_order || bad_class {
            let g = llfree.get(None, req);
            vassert!("C08", g.is_err_and(|e| e == Error::Argument), "allocation with an invalid order or class is rejected before anything is touched");
        }
    }
}

/// Metadata buffers: too small, misaligned or overlapping => initialization error.
// @h props=C08 tier=quick geom=4 panics=C08 mem=C18
#[kani::proof]
fn c08_metadata_valid() {
    let mut back = Buf([0u8; 512]);
    let base = back.0.as_mut_ptr();
    let o: [usize; 3] = kani::any();
    let l: [usize; 3] = kani::any();
    for i in 0..3 {
        kani::assume(o[i] <= 512 && l[i] <= 512 - o[i]);
    }
    let need: [usize; 3] = kani::any();
    let m = MetaSize { local: need[0], trees: need[1], lower: need[2] };
    // three views into one backing buffer (possibly overlapping: never written through)
    let meta = unsafe {
        MetaData {
            local: core::slice::from_raw_parts_mut(base.add(o[0]), l[0]),
            trees: core::slice::from_raw_parts_mut(base.add(o[1]), l[1]),
            lower: core::slice::from_raw_parts_mut(base.add(o[2]), l[2]),
        }
    };
    let ok = meta.valid(&m);
    let big = l[0] >= need[0] && l[1] >= need[1] && l[2] >= need[2];
    let aligned = o[0] % 64 == 0 && o[1] % 64 == 0 && o[2] % 64 == 0;
    let ov = |a: usize, b: usize| l[a] > 0 && l[b] > 0 && o[a] < o[b] + l[b] && o[b] < o[a] + l[a];
    let overlap = ov(0, 1) || ov(1, 2) || ov(2, 0);
    vcover!("C08", ok, "valid buffers");
    vcover!("C08", big && aligned && overlap, "overlapping buffers");
    vcover!("C08", l[0] == 0 && ok, "empty buffer accepted");
    if !big || !aligned || overlap {
        vassert!("C08", !ok, "buffers that are too small, misaligned or overlapping are rejected");
    }
    // (acceptance of valid buffers is not part of the property; the witnesses above show that
    // it is possible, including with an empty buffer)
}
