#!/bin/sh
# Runs the demonstration against a scratch copy of /repo's working tree (feature verif on).
set -e
S=/var/tmp/llfree-finding.$$
rsync -a --exclude /target --exclude .git /repo/ $S/
cp "$(dirname "$0")/demo.rs" $S/eval/tests/finding_partial_put_huge.rs
(cd $S && cargo test --offline -p llfree-eval --features verif --test finding_partial_put_huge 2>&1 | grep -E "panicked|test result|Exceeding" )
rm -rf $S
