//! Harnesses for core/src/lower.rs — L layer of DESIGN.md.
//!
//! The persistent metadata (bitfields + huge-entry tables) of NT trees is fully symbolic,
//! constrained only by consequences of the representation invariant J:
//!   non-huge entry: count == number of clear bits of its bitfield (<= 512);
//!   huge entry: bitfield all zero and the huge frame lies entirely inside the managed range;
//!   bits of frames >= frames() are set; entries of the last table without a bitfield are 0.
//! `count == popcount` itself is never put into a formula (it dominates solving time); the
//! harnesses assume the *instances* of its consequences they need (each is an instance of a
//! lemma proved in bitfield.rs: lemma_popcount_*) and assert post-states in delta form
//! (`entry' = entry -/+ 2^k`, `rows' = rows xor block`), which re-establishes J by the lemmas.
#![allow(dead_code, unused_imports)]
use super::*;
use crate::bitfield::verif_bitfield::{block_all, block_mask, NROWS};
use crate::verif_support::*;
use core::sync::atomic::Ordering::Relaxed;
use crate::BITFIELD_ROW;

// NT = number of trees of the symbolic lower allocator, NH = NT * TREE_HUGE its huge frames
// (const parameters; one- and two-tree instances are used).
pub(crate) const NH1: usize = TREE_HUGE;
pub(crate) const NH2: usize = 2 * TREE_HUGE;
const HUGE: u16 = u16::MAX;

pub(crate) struct LState<const NT: usize, const NH: usize> {
    pub bitfields: [Align<Bitfield>; NH],
    pub children: [Align<[Atom<HugeEntry>; TREE_HUGE]>; NT],
}
#[derive(Clone, Copy)]
pub(crate) struct LModel<const NH: usize> {
    pub rows: [[u64; NROWS]; NH],
    pub entries: [u16; NH],
}

impl<const NT: usize, const NH: usize> LState<NT, NH> {
    pub fn any() -> Self {
        Self {
            bitfields: core::array::from_fn(|_| Align(crate::bitfield::verif_bitfield::any_bitfield())),
            children: core::array::from_fn(|_| Align(core::array::from_fn(|_| Atom::new(HugeEntry::from_bits(kani::any()))))),
        }
    }
    pub fn snapshot(&self) -> LModel<NH> {
        LModel {
            rows: core::array::from_fn(|h| crate::bitfield::verif_bitfield::rows_of(&self.bitfields[h])),
            entries: core::array::from_fn(|h| self.children[h / TREE_HUGE][h % TREE_HUGE].0.load(Relaxed)),
        }
    }
    pub fn restore(&self, m: &LModel<NH>) {
        for h in 0..NH {
            crate::bitfield::verif_bitfield::set_rows(&self.bitfields[h], &m.rows[h]);
            self.children[h / TREE_HUGE][h % TREE_HUGE].0.store(m.entries[h], Relaxed);
        }
    }
    /// The real `Lower` over this state, sized as `Lower::new` would size it for `frames`.
    pub fn lower(&self, frames: usize) -> Lower<'_> {
        Lower {
            len: frames,
            bitfields: &self.bitfields[..frames.div_ceil(Bitfield::LEN)],
            children: &self.children[..frames.div_ceil(TREE_FRAMES)],
        }
    }
}

/// A frame count that needs exactly NT trees (the last one possibly partial).
pub(crate) fn any_frames<const NT: usize>() -> usize {
    let frames: usize = kani::any();
    kani::assume(frames > (NT - 1) * TREE_FRAMES && frames <= NT * TREE_FRAMES);
    frames
}

impl<const NH: usize> LModel<NH> {
    pub fn huge(&self, h: usize) -> bool {
        self.entries[h] == HUGE
    }
    pub fn count(&self, h: usize) -> usize {
        if self.huge(h) { 0 } else { self.entries[h] as usize }
    }
    /// block of order k < HUGE_ORDER at frame f entirely free
    pub fn small_free(&self, f: usize, k: usize) -> bool {
        let h = f / HUGE_FRAMES;
        !self.huge(h) && block_all(&self.rows[h], f % HUGE_FRAMES, k, false)
    }
    /// block of order k < HUGE_ORDER at frame f entirely allocated as base frames
    pub fn small_alloc(&self, f: usize, k: usize) -> bool {
        let h = f / HUGE_FRAMES;
        !self.huge(h) && block_all(&self.rows[h], f % HUGE_FRAMES, k, true)
    }
    /// all huge frames of the block of order k >= HUGE_ORDER at f are entirely free / whole-allocated
    pub fn huge_all(&self, f: usize, k: usize, v: u16) -> bool {
        let mut ok = true;
        let h0 = f / HUGE_FRAMES;
        for i in 0..NH {
            if i >= h0 && i < h0 + (1 << (k - HUGE_ORDER)) && self.entries[i] != v {
                ok = false;
            }
        }
        ok
    }
    pub fn block_free(&self, f: usize, k: usize) -> bool {
        if k >= HUGE_ORDER { self.huge_all(f, k, HUGE_FRAMES as u16) } else { self.small_free(f, k) }
    }
}

fn in_range(frames: usize, h: usize) -> usize {
    frames.saturating_sub(h * HUGE_FRAMES).min(HUGE_FRAMES)
}

/// Assume the state-wide consequences of the representation invariant J.
pub(crate) fn assume_inv<const NH: usize>(m: &LModel<NH>, frames: usize) {
    let nbf = frames.div_ceil(HUGE_FRAMES);
    for h in 0..NH {
        let e = m.entries[h];
        if h >= nbf {
            // entry of the last table without a bitfield: not part of the managed range
            kani::assume(e == 0);
            continue;
        }
        let inr = in_range(frames, h);
        if e == HUGE {
            kani::assume(inr == HUGE_FRAMES);
            for r in 0..NROWS {
                kani::assume(m.rows[h][r] == 0);
            }
        } else {
            // count == zeros <= frames of this huge frame inside the range
            kani::assume(e as usize <= inr);
            for r in 0..NROWS {
                // bits of frames beyond the range are set
                let lo = r * 64;
                let row = m.rows[h][r];
                if inr <= lo {
                    kani::assume(row == u64::MAX);
                } else if inr < lo + 64 {
                    kani::assume(row >> (inr - lo) == u64::MAX >> (inr - lo));
                }
                // lemma_popcount_extremes: count == LEN  =>  all rows zero
                if e as usize == HUGE_FRAMES {
                    kani::assume(row == 0);
                }
            }
        }
    }
}
/// Instances of `count == zeros` for one aligned block (lemma_popcount_block_o<k>).
pub(crate) fn assume_block_instances<const NH: usize>(m: &LModel<NH>, f: usize, k: usize) {
    if k < HUGE_ORDER {
        let h = f / HUGE_FRAMES;
        if m.small_free(f, k) {
            kani::assume(m.count(h) >= 1 << k);
        }
        if m.small_alloc(f, k) {
            kani::assume(m.count(h) + (1 << k) <= HUGE_FRAMES);
        }
    }
}

/// post == pre except: the block (f, k) flipped in the bitfield and the entry moved by `delta`
fn only_small_changed<const NH: usize>(pre: &LModel<NH>, post: &LModel<NH>, f: usize, k: usize, new_entry: u16) -> bool {
    let mut ok = true;
    let hf = f / HUGE_FRAMES;
    for h in 0..NH {
        for r in 0..NROWS {
            let want = if h == hf { pre.rows[h][r] ^ block_mask(r, f % HUGE_FRAMES, k) } else { pre.rows[h][r] };
            if post.rows[h][r] != want {
                ok = false;
            }
        }
        let want = if h == hf { new_entry } else { pre.entries[h] };
        if post.entries[h] != want {
            ok = false;
        }
    }
    ok
}
/// post == pre except: the entries of the huge block (f, k) are `v`
fn only_huge_changed<const NH: usize>(pre: &LModel<NH>, post: &LModel<NH>, f: usize, k: usize, v: u16) -> bool {
    let mut ok = true;
    let h0 = f / HUGE_FRAMES;
    for h in 0..NH {
        for r in 0..NROWS {
            if post.rows[h][r] != pre.rows[h][r] {
                ok = false;
            }
        }
        let want = if h >= h0 && h < h0 + (1 << (k - HUGE_ORDER)) { v } else { pre.entries[h] };
        if post.entries[h] != want {
            ok = false;
        }
    }
    ok
}
pub(crate) fn unchanged<const NH: usize>(pre: &LModel<NH>, post: &LModel<NH>) -> bool {
    let mut ok = true;
    for h in 0..NH {
        for r in 0..NROWS {
            if post.rows[h][r] != pre.rows[h][r] {
                ok = false;
            }
        }
        if post.entries[h] != pre.entries[h] {
            ok = false;
        }
    }
    ok
}

/// The contract of a successful allocation of (f, k) from `pre` to `post`.
pub(crate) fn check_alloc_effect<const NH: usize>(pre: &LModel<NH>, post: &LModel<NH>, f: usize, k: usize, frames: usize) {
    vassert!("C01", f % (1 << k) == 0, "allocated block starts at a multiple of its size");
    vassert!("C01", f + (1 << k) <= frames, "allocated block lies inside the managed range");
    vassert!("C01", pre.block_free(f, k), "allocated block was entirely free (no overlap with held blocks)");
    if k >= HUGE_ORDER {
        vassert!("C02", only_huge_changed(pre, post, f, k, HUGE), "allocation marks exactly the block's huge frames");
    } else {
        let e = pre.entries[f / HUGE_FRAMES];
        vassert!("C02", e != HUGE && e as usize >= (1 << k) && only_small_changed(pre, post, f, k, e - (1 << k) as u16),
            "allocation marks exactly the block's frames and lowers its huge frame's counter by the block size");
    }
}

/// Untargeted `Lower::get` of one order from an arbitrary state.
fn l_get_body<const NT: usize, const NH: usize>(k: usize) {
    let st = LState::<NT, NH>::any();
    let frames = any_frames::<NT>();
    let pre = st.snapshot();
    assume_inv(&pre, frames);
    let lower = st.lower(frames);
    let start: usize = kani::any();
    kani::assume(start < (1 << 40) && start * BITFIELD_ROW < frames);
    let tree = start * BITFIELD_ROW / TREE_FRAMES;
    // completeness witness: an aligned block in the tree of `start`
    let p: usize = kani::any();
    kani::assume(p % (1 << k) == 0 && p / TREE_FRAMES == tree && p + (1 << k) <= frames);
    assume_block_instances(&pre, p, k);

    install(Mode::Seq);
    let r = if k <= 6 {
        lower.get(RowId(start), k, None)
    } else {
        // Multi-row / multi-entry orders ignore the row hint: `start` only selects the tree and the
        // first huge frame. Case-split over these (concrete indices keep CBMC's memory model cheap).
        kani::assume(start % NROWS == 0);
        let mut r = Err(Error::Argument);
        for c in 0..NH {
            if start == c * NROWS {
                r = lower.get(RowId(c * NROWS), k, None);
            }
        }
        r
    };
    set_mode(Mode::Off);
    let post = st.snapshot();
    vcover!("C12", r.is_ok() && tree == NT - 1, "allocation in the last tree");
    vcover!("C12", r.is_err(), "tree exhausted for this order");
    match r {
        Ok(f) => {
            vassert!("C12", f.0 / TREE_FRAMES == tree, "directed allocation stays inside its tree");
            check_alloc_effect(&pre, &post, f.0, k, frames);
        }
        Err(e) => {
            vassert!("C02", e == Error::Memory, "failure is out of memory");
            vassert!("C02", unchanged(&pre, &post), "a failed allocation leaves every frame's status unchanged");
            vassert!("C12", !pre.block_free(p, k), "directed allocation fails only if the tree has no free aligned block of the order");
        }
    }
}

/// Targeted allocation of one order.
fn l_get_at_body<const NT: usize, const NH: usize>(k: usize) {
    let st = LState::<NT, NH>::any();
    let frames = any_frames::<NT>();
    let pre = st.snapshot();
    assume_inv(&pre, frames);
    let lower = st.lower(frames);
    let f: usize = kani::any();
    kani::assume(f < (1 << 40) && f % (1 << k) == 0 && f + (1 << k) <= frames);
    assume_block_instances(&pre, f, k);
    install(Mode::Seq);
    // (the start row is ignored for targeted allocations)
    let r = if k <= 6 {
        lower.get(RowId(0), k, Some(FrameId(f)))
    } else {
        // case split over the (few) aligned positions: concrete indices for the multi-CAS orders
        let mut r = Err(Error::Argument);
        for c in 0..(NH * HUGE_FRAMES) >> k {
            if f == c << k {
                r = lower.get(RowId(0), k, Some(FrameId(c << k)));
            }
        }
        r
    };
    set_mode(Mode::Off);
    let post = st.snapshot();
    vcover!("C02", r.is_ok() && f / TREE_FRAMES == NT - 1, "targeted allocation in the last tree");
    vcover!("C02", r.is_err(), "target not free");
    vassert!("C02", r.is_ok() == pre.block_free(f, k), "targeted allocation succeeds exactly when the whole block is free");
    match r {
        Ok(g) => {
            vassert!("C02", g.0 == f, "a targeted allocation returns exactly the requested frame");
            check_alloc_effect(&pre, &post, f, k, frames);
        }
        Err(e) => {
            vassert!("C02", e == Error::Memory, "failure is out of memory");
            vassert!("C02", unchanged(&pre, &post), "a failed allocation leaves every frame's status unchanged");
        }
    }
}

/// `Lower::put` of one order.
fn l_put_body<const NT: usize, const NH: usize>(k: usize) {
    let st = LState::<NT, NH>::any();
    let frames = any_frames::<NT>();
    let pre = st.snapshot();
    assume_inv(&pre, frames);
    let lower = st.lower(frames);
    let f: usize = kani::any();
    kani::assume(f < (1 << 40) && f % (1 << k) == 0 && f + (1 << k) <= frames);
    assume_block_instances(&pre, f, k);
    install(Mode::Seq);
    let r = if k <= 6 {
        lower.put(FrameId(f), k)
    } else {
        let mut r = Err(Error::Argument);
        for c in 0..(NH * HUGE_FRAMES) >> k {
            if f == c << k {
                r = lower.put(FrameId(c << k), k);
            }
        }
        r
    };
    set_mode(Mode::Off);
    let post = st.snapshot();
    let h = f / HUGE_FRAMES;
    vcover!("C02", r.is_ok(), "free succeeds");
    vcover!("C02", r.is_err(), "free refused");
    vcover!("C02", k >= HUGE_ORDER || (pre.huge(h) && r.is_ok()), "partial free of a whole-allocated huge frame");
    if k >= HUGE_ORDER {
        let held = pre.huge_all(f, k, HUGE);
        vassert!("C02", r.is_ok() == held, "a huge-order free succeeds exactly when every covered huge frame was allocated whole");
        if r.is_ok() {
            vassert!("C02", only_huge_changed(&pre, &post, f, k, HUGE_FRAMES as u16), "a huge-order free frees exactly the covered huge frames");
        }
    } else if pre.huge(h) {
        vassert!("C02", r.is_ok(), "freeing part of a whole-allocated huge frame succeeds");
        // split: every other frame of the huge frame stays allocated (as base frames)
        let mut ok = true;
        for g in 0..NH {
            for r in 0..NROWS {
                let want = if g == h { !block_mask(r, f % HUGE_FRAMES, k) } else { pre.rows[g][r] };
                if post.rows[g][r] != want {
                    ok = false;
                }
            }
            let want = if g == h { (1u16) << k } else { pre.entries[g] };
            if post.entries[g] != want {
                ok = false;
            }
        }
        vassert!("C02", ok, "a partial free splits the huge frame: exactly the freed frames become free, the rest stays allocated");
    } else {
        let held = pre.small_alloc(f, k);
        vassert!("C02", r.is_ok() == held, "a free succeeds exactly when every frame of the block is allocated");
        if r.is_ok() {
            let e = pre.entries[h];
            vassert!("C02", only_small_changed(&pre, &post, f, k, e + (1 << k) as u16), "a free releases exactly the block's frames and raises the counter by the block size");
        }
    }
    if let Err(e) = r {
        vassert!("C02", e == Error::Memory, "failure is out of memory");
        vassert!("C02", unchanged(&pre, &post), "a failed free leaves every frame's status unchanged");
    }
}

/// Queries agree with the bit-level model (C04, lower part).
fn l_queries_body<const NT: usize, const NH: usize>() {
    let st = LState::<NT, NH>::any();
    let frames = any_frames::<NT>();
    let pre = st.snapshot();
    assume_inv(&pre, frames);
    let lower = st.lower(frames);
    // per-frame query and is_free for a symbolic order
    let f: usize = kani::any();
    kani::assume(f < frames);
    assume_block_instances(&pre, f, 0);
    let h = f / HUGE_FRAMES;
    let s0 = lower.stats_at(FrameId(f), 0);
    vassert!("C04", s0.free_frames == pre.small_free(f, 0) as usize, "per-frame query reports exactly whether the frame is free");
    vassert!("C04", lower.is_free(FrameId(f), 0) == pre.small_free(f, 0), "is_free(order 0) agrees with the frame's status");
    let sh = lower.stats_at(FrameId(f), HUGE_ORDER);
    vassert!("C04", sh.free_frames == pre.count(h) && sh.free_huge == (pre.count(h) == HUGE_FRAMES) as usize, "per-huge-frame query reports the huge frame's free count");
    let st_ = lower.stats_at(FrameId(f), TREE_ORDER);
    let t = f / TREE_FRAMES;
    let mut tfree = 0;
    let mut thuge = 0;
    let mut all = 0;
    let mut allhuge = 0;
    let mut alltrees = 0;
    for i in 0..NT {
        let mut tf = 0;
        for j in 0..TREE_HUGE {
            let c = pre.count(i * TREE_HUGE + j);
            tf += c;
            all += c;
            if c == HUGE_FRAMES {
                allhuge += 1;
                if i == t {
                    thuge += 1;
                }
            }
        }
        if i == t {
            tfree = tf;
        }
        if tf == TREE_FRAMES {
            alltrees += 1;
        }
    }
    vassert!("C04", st_.free_frames == tfree && st_.free_huge == thuge && st_.free_trees == (tfree == TREE_FRAMES) as usize, "per-tree query reports the tree's free frames and free huge frames");
    let s = lower.stats();
    vassert!("C04", s.free_frames == all && s.free_huge == allhuge && s.free_trees == alltrees, "exact statistics are the sums over the huge-frame counters");
    vassert!("C04", unchanged(&pre, &st.snapshot()), "queries change nothing");
}

fn l_is_free_orders_body<const NT: usize, const NH: usize>() {
    let st = LState::<NT, NH>::any();
    let frames = any_frames::<NT>();
    let pre = st.snapshot();
    assume_inv(&pre, frames);
    let lower = st.lower(frames);
    let k: usize = kani::any();
    kani::assume(k <= TREE_ORDER);
    let f: usize = kani::any();
    kani::assume(f < (1 << 40) && f % (1 << k) == 0 && f + (1 << k) <= frames);
    assume_block_instances(&pre, f, k);
    vassert!("C04", lower.is_free(FrameId(f), k) == pre.block_free(f, k), "is_free agrees with the block's status for every order");
}

// ---- generated: one harness per concrete order (symbolic orders make CBMC explore dead match arms) ----

// @h props=C04 tier=quick geom=1 tgeom=2 panics=C09 mem=C18
#[kani::proof]
#[kani::unwind(18)]
fn l_queries() {
    l_queries_body::<2, NH2>()
}
#[kani::proof]
#[kani::unwind(18)]
fn l_is_free_orders() {
    l_is_free_orders_body::<1, NH1>()
}

// @h props=C01,C02,C12 tier=quick geom=1 tgeom=2,4 panics=C09 mem=C18
#[kani::proof]
#[kani::unwind(18)]
fn l_get_o0() {
    l_get_body::<1, NH1>(0)
}
#[kani::proof]
#[kani::unwind(18)]
fn l_get_o1() {
    l_get_body::<1, NH1>(1)
}
#[kani::proof]
#[kani::unwind(18)]
fn l_get_o2() {
    l_get_body::<1, NH1>(2)
}
#[kani::proof]
#[kani::unwind(18)]
fn l_get_o3() {
    l_get_body::<1, NH1>(3)
}
#[kani::proof]
#[kani::unwind(18)]
fn l_get_o4() {
    l_get_body::<1, NH1>(4)
}
#[kani::proof]
#[kani::unwind(18)]
fn l_get_o5() {
    l_get_body::<1, NH1>(5)
}
#[kani::proof]
#[kani::unwind(18)]
fn l_get_o6() {
    l_get_body::<1, NH1>(6)
}
#[kani::proof]
#[kani::unwind(18)]
fn l_get_o7() {
    l_get_body::<1, NH1>(7)
}
#[kani::proof]
#[kani::unwind(18)]
fn l_get_o8() {
    l_get_body::<1, NH1>(8)
}
#[kani::proof]
#[kani::unwind(18)]
fn l_get_o9() {
    l_get_body::<1, NH1>(9)
}

// @h props=C01,C02,C12 tier=quick geom=1 tgeom= panics=C09 mem=C18
#[kani::proof]
#[kani::unwind(18)]
fn l_get_t2_o0() {
    l_get_body::<2, NH2>(0)
}
#[kani::proof]
#[kani::unwind(18)]
fn l_get_t2_o9() {
    l_get_body::<2, NH2>(9)
}

// @h props=C01,C02,C12 tier=thorough geom=1 tgeom= panics=C09 mem=C18
#[kani::proof]
#[kani::unwind(18)]
fn l_get_t2_o1() {
    l_get_body::<2, NH2>(1)
}
#[kani::proof]
#[kani::unwind(18)]
fn l_get_t2_o3() {
    l_get_body::<2, NH2>(3)
}
#[kani::proof]
#[kani::unwind(18)]
fn l_get_t2_o5() {
    l_get_body::<2, NH2>(5)
}
#[kani::proof]
#[kani::unwind(18)]
fn l_get_t2_o6() {
    l_get_body::<2, NH2>(6)
}
#[kani::proof]
#[kani::unwind(18)]
fn l_get_t2_o7() {
    l_get_body::<2, NH2>(7)
}
#[kani::proof]
#[kani::unwind(18)]
fn l_get_t2_o8() {
    l_get_body::<2, NH2>(8)
}

// @h props=C01,C02,C12 tier=thorough geom=2 tgeom=4 panics=C09 mem=C18
#[kani::proof]
#[kani::unwind(18)]
fn l_get_o10() {
    l_get_body::<1, NH1>(10)
}

// @h props=C01,C02,C12 tier=thorough geom=4 tgeom= panics=C09 mem=C18
#[kani::proof]
#[kani::unwind(18)]
fn l_get_o11() {
    l_get_body::<1, NH1>(11)
}

// @h props=C01,C02,C12 tier=thorough geom=2 tgeom= panics=C09 mem=C18
#[kani::proof]
#[kani::unwind(18)]
fn l_get_t2_o10() {
    l_get_body::<2, NH2>(10)
}

// @h props=C01,C02 tier=quick geom=1 tgeom=2,4 panics=C09 mem=C18
#[kani::proof]
#[kani::unwind(18)]
fn l_get_at_o0() {
    l_get_at_body::<1, NH1>(0)
}
#[kani::proof]
#[kani::unwind(18)]
fn l_get_at_o1() {
    l_get_at_body::<1, NH1>(1)
}
#[kani::proof]
#[kani::unwind(18)]
fn l_get_at_o2() {
    l_get_at_body::<1, NH1>(2)
}
#[kani::proof]
#[kani::unwind(18)]
fn l_get_at_o3() {
    l_get_at_body::<1, NH1>(3)
}
#[kani::proof]
#[kani::unwind(18)]
fn l_get_at_o4() {
    l_get_at_body::<1, NH1>(4)
}
#[kani::proof]
#[kani::unwind(18)]
fn l_get_at_o5() {
    l_get_at_body::<1, NH1>(5)
}
#[kani::proof]
#[kani::unwind(18)]
fn l_get_at_o6() {
    l_get_at_body::<1, NH1>(6)
}
#[kani::proof]
#[kani::unwind(18)]
fn l_get_at_o7() {
    l_get_at_body::<1, NH1>(7)
}
#[kani::proof]
#[kani::unwind(18)]
fn l_get_at_o9() {
    l_get_at_body::<1, NH1>(9)
}

// @h props=C01,C02 tier=thorough geom=1,2,4 tgeom= panics=C09 mem=C18
#[kani::proof]
#[kani::unwind(18)]
fn l_get_at_o8() {
    l_get_at_body::<1, NH1>(8)
}

// @h props=C01,C02 tier=quick geom=1 tgeom= panics=C09 mem=C18
#[kani::proof]
#[kani::unwind(18)]
fn l_get_at_t2_o0() {
    l_get_at_body::<2, NH2>(0)
}
#[kani::proof]
#[kani::unwind(18)]
fn l_get_at_t2_o9() {
    l_get_at_body::<2, NH2>(9)
}

// @h props=C01,C02 tier=thorough geom=1 tgeom= panics=C09 mem=C18
#[kani::proof]
#[kani::unwind(18)]
fn l_get_at_t2_o1() {
    l_get_at_body::<2, NH2>(1)
}
#[kani::proof]
#[kani::unwind(18)]
fn l_get_at_t2_o3() {
    l_get_at_body::<2, NH2>(3)
}
#[kani::proof]
#[kani::unwind(18)]
fn l_get_at_t2_o5() {
    l_get_at_body::<2, NH2>(5)
}
#[kani::proof]
#[kani::unwind(18)]
fn l_get_at_t2_o6() {
    l_get_at_body::<2, NH2>(6)
}
#[kani::proof]
#[kani::unwind(18)]
fn l_get_at_t2_o7() {
    l_get_at_body::<2, NH2>(7)
}
#[kani::proof]
#[kani::unwind(18)]
fn l_get_at_t2_o8() {
    l_get_at_body::<2, NH2>(8)
}

// @h props=C01,C02 tier=thorough geom=2 tgeom=4 panics=C09 mem=C18
#[kani::proof]
#[kani::unwind(18)]
fn l_get_at_o10() {
    l_get_at_body::<1, NH1>(10)
}

// @h props=C01,C02 tier=thorough geom=4 tgeom= panics=C09 mem=C18
#[kani::proof]
#[kani::unwind(18)]
fn l_get_at_o11() {
    l_get_at_body::<1, NH1>(11)
}

// @h props=C01,C02 tier=thorough geom=2 tgeom= panics=C09 mem=C18
#[kani::proof]
#[kani::unwind(18)]
fn l_get_at_t2_o10() {
    l_get_at_body::<2, NH2>(10)
}

// @h props=C02 tier=quick geom=1 tgeom=2,4 panics=C09 mem=C18
#[kani::proof]
#[kani::unwind(18)]
fn l_put_o0() {
    l_put_body::<1, NH1>(0)
}
#[kani::proof]
#[kani::unwind(18)]
fn l_put_o1() {
    l_put_body::<1, NH1>(1)
}
#[kani::proof]
#[kani::unwind(18)]
fn l_put_o2() {
    l_put_body::<1, NH1>(2)
}
#[kani::proof]
#[kani::unwind(18)]
fn l_put_o3() {
    l_put_body::<1, NH1>(3)
}
#[kani::proof]
#[kani::unwind(18)]
fn l_put_o4() {
    l_put_body::<1, NH1>(4)
}
#[kani::proof]
#[kani::unwind(18)]
fn l_put_o5() {
    l_put_body::<1, NH1>(5)
}
#[kani::proof]
#[kani::unwind(18)]
fn l_put_o6() {
    l_put_body::<1, NH1>(6)
}
#[kani::proof]
#[kani::unwind(18)]
fn l_put_o9() {
    l_put_body::<1, NH1>(9)
}

// @h props=C02 tier=thorough geom=1,2,4 tgeom= panics=C09 mem=C18
#[kani::proof]
#[kani::unwind(18)]
fn l_put_o7() {
    l_put_body::<1, NH1>(7)
}
#[kani::proof]
#[kani::unwind(18)]
fn l_put_o8() {
    l_put_body::<1, NH1>(8)
}

// @h props=C02 tier=quick geom=1 tgeom= panics=C09 mem=C18
#[kani::proof]
#[kani::unwind(18)]
fn l_put_t2_o0() {
    l_put_body::<2, NH2>(0)
}
#[kani::proof]
#[kani::unwind(18)]
fn l_put_t2_o9() {
    l_put_body::<2, NH2>(9)
}

// @h props=C02 tier=thorough geom=1 tgeom= panics=C09 mem=C18
#[kani::proof]
#[kani::unwind(18)]
fn l_put_t2_o1() {
    l_put_body::<2, NH2>(1)
}
#[kani::proof]
#[kani::unwind(18)]
fn l_put_t2_o3() {
    l_put_body::<2, NH2>(3)
}
#[kani::proof]
#[kani::unwind(18)]
fn l_put_t2_o5() {
    l_put_body::<2, NH2>(5)
}
#[kani::proof]
#[kani::unwind(18)]
fn l_put_t2_o6() {
    l_put_body::<2, NH2>(6)
}
#[kani::proof]
#[kani::unwind(18)]
fn l_put_t2_o7() {
    l_put_body::<2, NH2>(7)
}
#[kani::proof]
#[kani::unwind(18)]
fn l_put_t2_o8() {
    l_put_body::<2, NH2>(8)
}

// @h props=C02 tier=thorough geom=2 tgeom=4 panics=C09 mem=C18
#[kani::proof]
#[kani::unwind(18)]
fn l_put_o10() {
    l_put_body::<1, NH1>(10)
}

// @h props=C02 tier=thorough geom=4 tgeom= panics=C09 mem=C18
#[kani::proof]
#[kani::unwind(18)]
fn l_put_o11() {
    l_put_body::<1, NH1>(11)
}

// @h props=C02 tier=thorough geom=2 tgeom= panics=C09 mem=C18
#[kani::proof]
#[kani::unwind(18)]
fn l_put_t2_o10() {
    l_put_body::<2, NH2>(10)
}
