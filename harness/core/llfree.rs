//! Harnesses for core/src/llfree.rs: argument validation (C08), metadata validation, and the
//! upper-level components over symbolic trees / slots with the real lower allocator (U layer).
#![allow(dead_code, unused_imports)]
use super::*;
use crate::local::verif_local::{get_slot, set_slot, LOCAL_SIZE};
use crate::lower::verif_lower::{LModel, LState, NH1};
use crate::trees::verif_trees::TreeArr;
use crate::verif_support::*;

#[repr(align(64))]
pub(crate) struct Buf<const N: usize>(pub [u8; N]);

/// A classing with `n` classes 0..n and symbolic slot counts 0..=2 per class.
fn any_small_classing(policy: PolicyFn) -> (Classing, usize) {
    let n: usize = kani::any();
    kani::assume(n >= 1 && n <= 3);
    let c0: usize = kani::any();
    let c1: usize = kani::any();
    let c2: usize = kani::any();
    kani::assume(c0 <= 2 && c1 <= 2 && c2 <= 2);
    // (constant-length slices: a copy_from_slice of symbolic length is modelled imprecisely by CBMC)
    let c = match n {
        1 => Classing::new(&[(Class(0), c0)], Class(0), policy),
        2 => Classing::new(&[(Class(0), c0), (Class(1), c1)], Class(0), policy),
        _ => Classing::new(&[(Class(0), c0), (Class(1), c1), (Class(2), c2)], Class(0), policy),
    };
    (c, n)
}

/// Argument validation: `check`, and `get`/`put` refusing before touching anything.
/// The allocator has NO metadata behind it (empty tables): any access past `check` with invalid
/// arguments would index an empty slice and be reported.
// @h props=C08 tier=quick geom=4 panics=C08 mem=C18
#[kani::proof]
#[kani::unwind(5)]
fn c08_check_arguments() {
    let frames: usize = kani::any();
    let (classing, n) = any_small_classing(zeroed_policy);
    let mut lbuf = Buf([0u8; 6 * 64]);
    let no_trees = TreeArr::<0>::zeroed();
    let llfree = LLFree {
        locals: Locals::new(&mut lbuf.0, &classing).unwrap(),
        lower: crate::lower::verif_lower::lower_without_metadata(frames),
        trees: no_trees.trees(Class(0)),
        policy: classing.policy,
    };
    let frame: usize = kani::any();
    let order: usize = kani::any();
    let class: u8 = kani::any();
    kani::assume(class < 8);
    let req = Request::new(order, Class(class), None);
    // mathematical (no wrap-around) version of the four conditions
    let bad_order = order > TREE_ORDER;
    let size = if bad_order { 0u128 } else { 1u128 << order };
    let out = frame as u128 + size > frames as u128;
    let misaligned = !bad_order && frame % (1usize << order) != 0;
    let bad_class = class as usize >= n;
    let invalid = bad_order || out || misaligned || bad_class;
    vcover!("C08", !invalid, "valid arguments");
    vcover!("C08", out && !bad_order && frame > usize::MAX - 4, "frame near the end of the address space");
    let r = llfree.check(FrameId(frame), &req);
    vassert!("C08", r.is_err() == invalid, "arguments are rejected exactly when the order is too large, the block leaves the managed range, the frame is misaligned or the class is not configured");
    if let Err(e) = r {
        vassert!("C08", e == Error::Argument, "rejection is an invalid-argument error");
    }
    if invalid {
        vassert!("C08", llfree.put(FrameId(frame), req) == Err(Error::Argument), "free with invalid arguments is rejected before anything is touched");
        let g = llfree.get(Some(FrameId(frame)), req);
        vassert!("C08", g.is_err_and(|e| e == Error::Argument), "targeted allocation with invalid arguments is rejected before anything is touched");
        if bad_order || bad_class {
            let g = llfree.get(None, req);
            vassert!("C08", g.is_err_and(|e| e == Error::Argument), "allocation with an invalid order or class is rejected before anything is touched");
        }
    }
}

/// Metadata buffers: too small, misaligned or overlapping => initialization error.
// @h props=C08 tier=quick geom=4 panics=C08 mem=C18
#[kani::proof]
fn c08_metadata_valid() {
    let mut back = Buf([0u8; 512]);
    let base = back.0.as_mut_ptr();
    let o: [usize; 3] = kani::any();
    let l: [usize; 3] = kani::any();
    for i in 0..3 {
        kani::assume(o[i] <= 512 && l[i] <= 512 - o[i]);
    }
    let need: [usize; 3] = kani::any();
    let m = MetaSize { local: need[0], trees: need[1], lower: need[2] };
    // three views into one backing buffer (possibly overlapping: never written through)
    let meta = unsafe {
        MetaData {
            local: core::slice::from_raw_parts_mut(base.add(o[0]), l[0]),
            trees: core::slice::from_raw_parts_mut(base.add(o[1]), l[1]),
            lower: core::slice::from_raw_parts_mut(base.add(o[2]), l[2]),
        }
    };
    let ok = meta.valid(&m);
    let big = l[0] >= need[0] && l[1] >= need[1] && l[2] >= need[2];
    let aligned = o[0] % 64 == 0 && o[1] % 64 == 0 && o[2] % 64 == 0;
    let ov = |a: usize, b: usize| l[a] > 0 && l[b] > 0 && o[a] < o[b] + l[b] && o[b] < o[a] + l[a];
    let overlap = ov(0, 1) || ov(1, 2) || ov(2, 0);
    vcover!("C08", ok, "valid buffers");
    vcover!("C08", big && aligned && overlap, "overlapping buffers");
    vcover!("C08", l[0] == 0 && ok, "empty buffer accepted");
    if !big || !aligned || overlap {
        vassert!("C08", !ok, "buffers that are too small, misaligned or overlapping are rejected");
    }
    // (acceptance of valid buffers is not part of the property; the witnesses above show that
    // it is possible, including with an empty buffer)
}

// =============================================================================================
// U layer: the real upper allocator over symbolic trees / slots and the REAL lower allocator
// (geometry tree_huge_1: one tree = one huge frame, so a tree's exact free count is its huge
// entry's counter and the accounting invariant needs no popcount).
//
// Invariant I_tree (DESIGN.md §3), assumed as pre-state and asserted as post-state:
//   unreserved tree:  Tree.free == free frames of the tree in the lower allocator,
//                     or the tree is offline (ghost): entirely free below, Tree.free == 0
//   reserved tree:    exactly one present slot names it; Tree.free + slot.free == lower free;
//                     policy(slot class, Tree.class) is Match or Demote (unreserve-safe)
//   slots name distinct existing trees; classes stored in trees are configured.
// =============================================================================================
use crate::lower::verif_lower::{assume_block_instances, assume_inv};

pub(crate) const NCL: usize = 3; // classes 0..NCL, one slot each (two for class 0 in some configs)

#[derive(Clone, Copy, PartialEq, Eq)]
pub(crate) enum Cfg {
    Simple,   // classes 0,1 / default 1 / Classing::simple policy
    Movable,  // classes 0,1,2 / default 2 / Classing::movable policy
    Zeroed,   // classes 0,1,2 / default 1 / zeroed policy of the integration tests
    ZeroSlot, // classes 0 (one slot) and 1 (NO slot) / default 1 / simple policy
}
pub(crate) fn classing_of(cfg: Cfg) -> Classing {
    match cfg {
        Cfg::Simple => Classing::simple(1).0,
        Cfg::Movable => Classing::movable(1).0,
        Cfg::Zeroed => Classing::new(&[(Class(0), 1), (Class(1), 1), (Class(2), 1)], Class(1), zeroed_policy),
        Cfg::ZeroSlot => Classing::new(&[(Class(0), 1), (Class(1), 0)], Class(1), Classing::simple(1).0.policy),
    }
}
fn ncls(cfg: Cfg) -> usize {
    match cfg {
        Cfg::Simple | Cfg::ZeroSlot => 2,
        _ => 3,
    }
}
fn slots_of(cfg: Cfg, c: usize) -> usize {
    if c >= ncls(cfg) || (cfg == Cfg::ZeroSlot && c == 1) { 0 } else { 1 }
}

#[derive(Clone, Copy)]
pub(crate) struct UModel<const NT: usize> {
    pub lower: LModel<NT>,
    pub tree: [(usize, bool, u8); NT],
    pub slot: [(bool, usize, usize); NCL], // (present, row, free) of slot 0 of each class
    pub off: [bool; NT],                   // ghost: tree is offline
}
/// The real `LLFree` over a symbolic lower state, typed tree entries and a slot buffer.
pub(crate) fn build<'a, const NT: usize>(l: &'a LState<NT, NT>, trees: &'a TreeArr<NT>, lbuf: &'a mut [u8], frames: usize, classing: &Classing) -> LLFree<'a> {
    LLFree {
        locals: Locals::new(lbuf, classing).unwrap(),
        lower: l.lower_exact(frames, NT),
        trees: trees.trees(classing.default),
        policy: classing.policy,
    }
}
pub(crate) fn snapshot<const NT: usize>(a: &LLFree<'_>, l: &LState<NT, NT>, t: &TreeArr<NT>, cfg: Cfg, off: [bool; NT]) -> UModel<NT> {
    let mut slot = [(false, 0, 0); NCL];
    for c in 0..NCL {
        if slots_of(cfg, c) > 0 {
            slot[c] = get_slot(&a.locals, Class(c as u8), 0);
        }
    }
    UModel { lower: l.snapshot(), tree: core::array::from_fn(|i| { let (f, r, c) = t.raw(i); (f, r, c.0) }), slot, off }
}

/// Establish an arbitrary I_tree state (writes symbolic trees and slots, assumes the invariant).
pub(crate) fn any_inv_state<const NT: usize>(a: &LLFree<'_>, l: &LState<NT, NT>, t: &TreeArr<NT>, cfg: Cfg, frames: usize, allow_offline: bool) -> UModel<NT> {
    let lm = l.snapshot();
    assume_inv(&lm, frames);
    let policy = a.policy;
    let mut off = [false; NT];
    // slots
    let mut slot_tree = [usize::MAX; NCL];
    for c in 0..NCL {
        if slots_of(cfg, c) > 0 {
            let present: bool = kani::any();
            let tree: usize = kani::any();
            let r: usize = kani::any();
            let free: usize = kani::any();
            kani::assume(tree < NT && r < crate::bitfield::verif_bitfield::NROWS && free <= TREE_FRAMES);
            set_slot(&a.locals, Class(c as u8), 0, present, tree * (TREE_FRAMES / 64) + r, free);
            if present {
                slot_tree[c] = tree;
            }
        }
    }
    for c in 0..NCL {
        for d in 0..NCL {
            if c < d && slot_tree[c] != usize::MAX {
                kani::assume(slot_tree[c] != slot_tree[d]);
            }
        }
    }
    for i in 0..NT {
        let free: usize = kani::any();
        let class: u8 = kani::any();
        kani::assume(free <= TREE_FRAMES && (class as usize) < ncls(cfg));
        let lfree = lm.count(i);
        let mut holder = usize::MAX;
        for c in 0..NCL {
            if slot_tree[c] == i {
                holder = c;
            }
        }
        if holder != usize::MAX {
            let sf = get_slot(&a.locals, Class(holder as u8), 0).2;
            kani::assume(free + sf == lfree);
            kani::assume(matches!(policy(Class(holder as u8), Class(class), sf), Policy::Match(_) | Policy::Demote));
            t.set(i, free, true, Class(class));
        } else {
            let o: bool = kani::any();
            if o && allow_offline {
                kani::assume(lfree == TREE_FRAMES && free == 0);
                off[i] = true;
            } else {
                kani::assume(free == lfree);
            }
            t.set(i, free, false, Class(class));
        }
    }
    snapshot(a, l, t, cfg, off)
}

/// Assert I_tree on the current state (tagged C04) and that offline trees stay untouched (C15).
pub(crate) fn check_inv_state<const NT: usize>(m: &UModel<NT>, cfg: Cfg, policy: PolicyFn) {
    let mut slot_tree = [usize::MAX; NCL];
    for c in 0..NCL {
        if slots_of(cfg, c) > 0 && m.slot[c].0 {
            let tr = m.slot[c].1 * 64 / TREE_FRAMES;
            vassert!("C04", tr < NT, "a slot names an existing tree");
            slot_tree[c] = tr;
        }
    }
    for c in 0..NCL {
        for d in 0..NCL {
            if c < d && slot_tree[c] != usize::MAX {
                vassert!("C04", slot_tree[c] != slot_tree[d], "no two slots reserve the same tree");
            }
        }
    }
    for i in 0..NT {
        let (free, reserved, class) = m.tree[i];
        let lfree = m.lower.count(i);
        vassert!("C04", (class as usize) < ncls(cfg), "trees only carry configured classes");
        let mut holder = usize::MAX;
        for c in 0..NCL {
            if slot_tree[c] == i {
                holder = c;
            }
        }
        if reserved {
            vassert!("C04", holder != usize::MAX, "a reserved tree is named by a slot");
            if holder != usize::MAX {
                let sf = m.slot[holder].2;
                vassert!("C04", free + sf == lfree, "slot counter plus tree counter equal the tree's free frames");
                vassert!("C09", matches!(policy(Class(holder as u8), Class(class), sf), Policy::Match(_) | Policy::Demote), "a reservation can always be returned (class of slot and tree stay compatible)");
            }
        } else {
            vassert!("C04", holder == usize::MAX, "a slot only names reserved trees");
            if m.off[i] {
                vassert!("C15", free == 0 && lfree == TREE_FRAMES, "an offline tree stays out of the fast count and entirely free");
            } else {
                vassert!("C04", free == lfree, "the fast counter of an unreserved tree equals its free frames");
            }
        }
    }
}

fn umodel_unchanged<const NT: usize>(a: &UModel<NT>, b: &UModel<NT>) -> bool {
    let mut ok = crate::lower::verif_lower::unchanged(&a.lower, &b.lower);
    for i in 0..NT {
        if a.tree[i] != b.tree[i] {
            ok = false;
        }
    }
    for c in 0..NCL {
        if a.slot[c].0 != b.slot[c].0 || (a.slot[c].0 && (a.slot[c].1 * 64 / TREE_FRAMES != b.slot[c].1 * 64 / TREE_FRAMES || a.slot[c].2 != b.slot[c].2)) {
            ok = false;
        }
    }
    ok
}
fn any_cfg_class(cfg: Cfg) -> Class {
    let c: u8 = kani::any();
    kani::assume((c as usize) < ncls(cfg));
    Class(c)
}
fn any_local(cfg: Cfg, class: Class) -> Option<usize> {
    if slots_of(cfg, class.0 as usize) > 0 && kani::any() { Some(0) } else { None }
}
fn any_block(k: usize, frames: usize) -> usize {
    let f: usize = kani::any();
    kani::assume(f < (1 << 30) && f % (1 << k) == 0 && f + (1 << k) <= frames);
    f
}

/// `LLFree::put` of one order from an arbitrary I_tree state.
fn u_put_body<const NT: usize>(cfg: Cfg, k: usize, then_drain: bool) {
    let (l, trees, mut lbuf) = (LState::<NT, NT>::any(), TreeArr::<NT>::zeroed(), Buf([0u8; 4 * 64]));
    let frames = crate::lower::verif_lower::any_frames::<NT>();
    let classing = classing_of(cfg);
    let a = build(&l, &trees, &mut lbuf.0, frames, &classing);
    let pre = any_inv_state(&a, &l, &trees, cfg, frames, true);
    let f = any_block(k, frames);
    assume_block_instances(&pre.lower, f, k);
    let class = any_cfg_class(cfg);
    let req = Request::new(k, class, any_local(cfg, class));
    install(Mode::Seq);
    let r = a.put(FrameId(f), req);
    set_mode(Mode::Off);
    let post = snapshot(&a, &l, &trees, cfg, pre.off);
    let h = f / HUGE_FRAMES;
    let held = if k >= HUGE_ORDER { pre.lower.huge_all(f, k, u16::MAX) } else { pre.lower.huge(h) || pre.lower.small_alloc(f, k) };
    vcover!("C04", r.is_ok() && req.local.is_some() && pre.slot[class.0 as usize].0, "free through a slot that holds a reservation");
    vcover!("C04", r.is_ok() && post.tree[f / TREE_FRAMES].0 == TREE_FRAMES, "tree becomes entirely free");
    vassert!("C02", r.is_ok() == held, "a free succeeds exactly when every frame of the block is allocated (huge orders: allocated whole)");
    match r {
        Ok(()) => {
            vassert!("C04", post.lower.count(f / TREE_FRAMES) == pre.lower.count(f / TREE_FRAMES) + (1 << k), "the lower layer got back exactly the freed frames");
            if !then_drain {
                check_inv_state(&post, cfg, a.policy);
            }
        }
        Err(e) => {
            vassert!("C02", e == Error::Memory, "a refused free reports out of memory");
            vassert!("C02", umodel_unchanged(&pre, &post), "a failed free changes nothing");
        }
    }
    if then_drain {
        install(Mode::Seq);
        a.drain();
        set_mode(Mode::Off);
        let post = snapshot(&a, &l, &trees, cfg, pre.off);
        for c in 0..NCL {
            vassert!("C10", !post.slot[c].0, "a drain empties every slot");
        }
        check_inv_state(&post, cfg, a.policy);
    }
    core::mem::forget(a);
}

/// One upper-level component from an arbitrary I_tree state.
/// op: 0 get_local, 1 reserve_or_steal(i), 2 steal_global(i), 3 steal_local, 4 demote_local
fn u_comp_body<const NT: usize>(cfg: Cfg, op: u8, k: usize, targeted: bool, cclass: u8) {
    let (l, trees, mut lbuf) = (LState::<NT, NT>::any(), TreeArr::<NT>::zeroed(), Buf([0u8; 4 * 64]));
    let frames = crate::lower::verif_lower::any_frames::<NT>();
    let classing = classing_of(cfg);
    let a = build(&l, &trees, &mut lbuf.0, frames, &classing);
    let pre = any_inv_state(&a, &l, &trees, cfg, frames, true);
    // (the slot-scanning components get a concrete request class: with a symbolic one every
    // slot address becomes symbolic and the formula exceeds the memory cap)
    let class = if cclass < 8 { Class(cclass) } else { any_cfg_class(cfg) };
    let local = any_local(cfg, class);
    let req = Request::new(k, class, local);
    let target = any_block(k, frames);
    let i: usize = kani::any();
    kani::assume(i < NT);
    let tgt = if targeted { Some(FrameId(target)) } else { None };
    // completeness witness: an aligned block of order k in tree i / the target's tree
    let wt = if targeted { target / TREE_FRAMES } else { i };
    let p = any_block(k, frames);
    kani::assume(p / TREE_FRAMES == wt);
    assume_block_instances(&pre.lower, p, k);
    if targeted {
        assume_block_instances(&pre.lower, target, k);
    }
    install(Mode::Seq);
    let r: Result<(FrameId, Class)> = match op {
        0 => {
            kani::assume(local.is_some());
            a.get_local(k, class, 0, tgt, true).map_err(|(e, _)| e)
        }
        1 => {
            // the caller (search_and_reserve) only runs for requests that name a slot
            kani::assume(local.is_some());
            a.reserve_or_steal(TreeId(i), k, class, 0)
        }
        2 => a.steal_global(TreeId(if targeted { target / TREE_FRAMES } else { i }), class, k, tgt),
        3 => a.steal_local(&req, tgt),
        _ => a.demote_local(&req, tgt),
    };
    set_mode(Mode::Off);
    let post = snapshot(&a, &l, &trees, cfg, pre.off);
    vcover!("C13", r.is_ok(), "component succeeds");
    vcover!("C13", (op != 1 && op != 2 && !(op == 3 && cclass != 0)) || r.is_ok_and(|(_, c)| c != class), "component reports a class other than the requested one");
    vcover!("C04", r.is_err(), "component fails");
    match r {
        Ok((f, c)) => {
            crate::lower::verif_lower::check_alloc_effect(&pre.lower, &post.lower, f.0, k, frames);
            vassert!("C02", !targeted || f.0 == target, "a targeted allocation returns exactly the requested frame");
            vassert!("C15", !pre.off[f.0 / TREE_FRAMES], "no allocation returns a frame of an offline tree");
            vassert!("C13", c == class || matches!((a.policy)(class, c, 1 << k), Policy::Match(_) | Policy::Steal), "the reported class is the requested one or one the policy rates as match or stealable");
            vassert!("C13", (c.0 as usize) < ncls(cfg), "the reported class is configured");
            check_inv_state(&post, cfg, a.policy);
        }
        Err(e) => {
            vassert!("C02", e == Error::Memory, "a failed allocation reports out of memory");
            vassert!("C02", crate::lower::verif_lower::unchanged(&pre.lower, &post.lower), "a failed allocation leaves the allocation status of every frame unchanged");
            check_inv_state(&post, cfg, a.policy);
            // completeness of the individual components (used by C10/C11)
            let (tf, tres, tc) = pre.tree[wt];
            let verdict = (a.policy)(class, Class(tc), 1 << k);
            if op == 2 || op == 1 {
                vassert!("C10", tres || tf < (1 << k) || verdict == Policy::Invalid || !pre.lower.block_free(p, k) || (targeted && !pre.lower.block_free(target, k)),
                    "a global attempt on a tree fails only if the tree is reserved, counts too few frames, is unusable for the class, or has no suitable free block");
            }
            if op == 0 && !targeted {
                let s = pre.slot[class.0 as usize];
                if s.0 && s.1 * 64 / TREE_FRAMES == wt {
                    vassert!("C11", s.2 + tf < (1 << k) || !pre.lower.block_free(p, k),
                        "an allocation through the slot's reservation fails only if slot and tree together count too few frames or the tree has no suitable free block");
                }
            }
        }
    }
    core::mem::forget(a);
}

/// Statistics and the allocator's own validation on an arbitrary quiescent I_tree state.
fn u_stats_body<const NT: usize>(cfg: Cfg, allow_offline: bool) {
    let (l, trees, mut lbuf) = (LState::<NT, NT>::any(), TreeArr::<NT>::zeroed(), Buf([0u8; 4 * 64]));
    let frames = crate::lower::verif_lower::any_frames::<NT>();
    let classing = classing_of(cfg);
    let a = build(&l, &trees, &mut lbuf.0, frames, &classing);
    let pre = any_inv_state(&a, &l, &trees, cfg, frames, allow_offline);
    let mut lower_free = 0;
    let mut offline_frames = 0;
    for i in 0..NT {
        lower_free += pre.lower.count(i);
        if pre.off[i] {
            offline_frames += TREE_FRAMES;
        }
    }
    let mut reservations = false;
    for c in 0..NCL {
        if pre.slot[c].0 && pre.slot[c].2 > 0 {
            reservations = true;
        }
    }
    vcover!("C14", reservations, "a reservation with a non-zero slot counter is present");
    let ts = a.tree_stats();
    let st = a.stats();
    vassert!("C04", st.free_frames == lower_free, "the exact free count is the number of free frames");
    vassert!("C04", ts.free_frames + offline_frames == st.free_frames, "the fast free count equals the exact one minus the frames of offline trees");
    let mut sum_free = 0;
    let mut sum_all = 0;
    for c in 0..(1 << Class::BITS) {
        sum_free += ts.classes[c].free_frames;
        sum_all += ts.classes[c].free_frames + ts.classes[c].alloc_frames;
    }
    vassert!("C14", sum_free == ts.free_frames, "the per-class free counts sum to the fast total free count");
    vassert!("C14", sum_all == NT * TREE_FRAMES, "summed over all classes, free plus allocated equals the number of trees times the tree size");
    if !allow_offline {
        // the allocator's own consistency validation passes whenever no tree is offline
        a.validate();
    }
    core::mem::forget(a);
}

/// `change_tree` with an arbitrary matcher (any tree id) and change.
fn u_change_tree_body<const NT: usize>(cfg: Cfg) {
    let (l, trees, mut lbuf) = (LState::<NT, NT>::any(), TreeArr::<NT>::zeroed(), Buf([0u8; 4 * 64]));
    let frames = crate::lower::verif_lower::any_frames::<NT>();
    let classing = classing_of(cfg);
    let a = build(&l, &trees, &mut lbuf.0, frames, &classing);
    let pre = any_inv_state(&a, &l, &trees, cfg, frames, true);
    let id: Option<usize> = if kani::any() { Some(kani::any()) } else { None };
    let m_class: Option<Class> = if kani::any() { Some(any_cfg_class(cfg)) } else { None };
    let m_free: usize = kani::any();
    let c_class: Option<Class> = if kani::any() { Some(any_cfg_class(cfg)) } else { None };
    let op = match kani::any::<u8>() % 3 {
        0 => None,
        1 => Some(TreeOperation::Online),
        _ => Some(TreeOperation::Offline),
    };
    install(Mode::Seq);
    let r = a.change_tree(TreeMatch { id: id.map(TreeId), class: m_class, free: m_free }, TreeChange { class: c_class, operation: op.clone() });
    set_mode(Mode::Off);
    // ghost: which tree changed
    let mut post_off = pre.off;
    let mut changed = usize::MAX;
    let mut nchanged = 0;
    for i in 0..NT {
        let (f, r_, c) = trees.raw(i);
        if (f, r_, c.0) != pre.tree[i] {
            changed = i;
            nchanged += 1;
        }
    }
    vcover!("C15", r.is_ok() && op == Some(TreeOperation::Offline), "a tree is taken offline");
    vcover!("C15", r.is_ok() && op == Some(TreeOperation::Online) && changed != usize::MAX && pre.off[changed], "an offline tree is brought online");
    vcover!("C09", id.is_some_and(|i| i >= NT), "a tree id beyond the last tree");
    vassert!("C15", nchanged <= 1, "a tree change touches at most one tree");
    vassert!("C02", crate::lower::verif_lower::unchanged(&pre.lower, &l.snapshot()), "tree changes never change the allocation status of a frame");
    if let Err(e) = r {
        vassert!("C15", nchanged == 0, "a refused tree change changes nothing");
        let _ = e;
    }
    if let Some(i) = id {
        if i < NT && !pre.tree[i].1 && pre.tree[i].0 == TREE_FRAMES && op == Some(TreeOperation::Offline) && m_class.is_none_or(|c| c.0 == pre.tree[i].2) && m_free <= TREE_FRAMES {
            vassert!("C15", r.is_ok(), "taking an unreserved, entirely free tree offline succeeds");
        }
    }
    if changed != usize::MAX {
        let i = changed;
        vassert!("C15", r.is_ok() && id.is_none_or(|j| j == i), "only the named tree changes");
        vassert!("C15", !pre.tree[i].1, "tree changes never apply to reserved trees");
        vassert!("C15", m_class.is_none_or(|c| c.0 == pre.tree[i].2) && pre.tree[i].0 >= m_free, "tree changes never apply to trees that do not match");
        match op {
            Some(TreeOperation::Offline) => post_off[i] = pre.tree[i].0 == TREE_FRAMES || pre.off[i],
            Some(TreeOperation::Online) => post_off[i] = false,
            None => {}
        }
        let (f, _, c) = trees.raw(i);
        if op == Some(TreeOperation::Online) {
            vassert!("C15", f == pre.lower.count(i), "bringing a tree online restores exactly its free frames");
        }
        vassert!("C15", c.0 == c_class.map_or(pre.tree[i].2, |c| c.0), "the tree takes the requested class");
    }
    // offline of a partly allocated tree is allowed by the API but leaves the fast counter
    // below the exact one until the tree is onlined again: outside I_tree, excluded here
    if !(changed != usize::MAX && op == Some(TreeOperation::Offline) && pre.tree[changed].0 != TREE_FRAMES && !pre.off[changed]) {
        let post = snapshot(&a, &l, &trees, cfg, post_off);
        check_inv_state(&post, cfg, a.policy);
    }
    core::mem::forget(a);
}

/// `drain` from an arbitrary I_tree state.
fn u_drain_body<const NT: usize>(cfg: Cfg) {
    let (l, trees, mut lbuf) = (LState::<NT, NT>::any(), TreeArr::<NT>::zeroed(), Buf([0u8; 4 * 64]));
    let frames = crate::lower::verif_lower::any_frames::<NT>();
    let classing = classing_of(cfg);
    let a = build(&l, &trees, &mut lbuf.0, frames, &classing);
    let pre = any_inv_state(&a, &l, &trees, cfg, frames, true);
    install(Mode::Seq);
    a.drain();
    set_mode(Mode::Off);
    let post = snapshot(&a, &l, &trees, cfg, pre.off);
    vcover!("C10", pre.slot[0].0 && (pre.slot[1].0 || slots_of(cfg, 1) == 0), "reservations drained (two where the classing has two slots)");
    for c in 0..NCL {
        vassert!("C10", !post.slot[c].0, "a drain empties every slot");
    }
    for i in 0..NT {
        vassert!("C10", !post.tree[i].1, "after a drain no tree is reserved");
    }
    vassert!("C02", crate::lower::verif_lower::unchanged(&pre.lower, &post.lower), "a drain never changes the allocation status of a frame");
    check_inv_state(&post, cfg, a.policy);
    core::mem::forget(a);
}

/// `LLFree::new` over byte buffers of exactly the requested sizes (C07, C18, C06 counters, C05 rebuild).
#[repr(align(64))]
struct WBuf<const N: usize>([u64; N]);
fn u_new_body(init: u8, frames_c: usize, cfg: Cfg) {
    // geometry tree_huge_1, at most 2 trees: lower = 2 bitfields (128 B) + 2 tables (128 B)
    let classing = classing_of(cfg);
    let m = LLFree::metadata_size(&classing, frames_c);
    let mut local = WBuf([0u64; 24]);
    let mut tbuf = WBuf([0u64; 8]);
    let mut lowb = WBuf([0u64; 32]);
    kani::assume(m.local <= 24 * 8 && m.trees <= 8 * 8 && m.lower <= 32 * 8);
    // symbolic previous contents (another allocator's metadata / garbage)
    let lw: [u64; 32] = kani::any();
    lowb.0 = lw;
    let tw: [u64; 8] = kani::any();
    tbuf.0 = tw;
    let sw: [u64; 3] = kani::any(); // the three slot words (one per 64-byte Local)
    local.0[0] = sw[0];
    local.0[8] = sw[1];
    local.0[16] = sw[2];
    let (lp, tp, sp) = (lowb.0.as_ptr(), tbuf.0.as_ptr(), local.0.as_ptr());
    let meta = unsafe {
        MetaData {
            local: core::slice::from_raw_parts_mut(local.0.as_mut_ptr().cast(), m.local),
            trees: core::slice::from_raw_parts_mut(tbuf.0.as_mut_ptr().cast(), m.trees),
            lower: core::slice::from_raw_parts_mut(lowb.0.as_mut_ptr().cast(), m.lower),
        }
    };
    let init_mode = match init {
        0 => Init::None,
        1 => Init::FreeAll,
        2 => Init::AllocAll,
        _ => Init::Recover,
    };
    let r = LLFree::new(frames_c, init_mode, &classing, meta);
    vassert!("C07", r.is_ok(), "construction over sufficient, aligned, disjoint buffers succeeds");
    let a = r.unwrap();
    vassert!("C07", a.frames() == frames_c, "the allocator manages the requested frames");
    vassert!("C07", a.trees.len() == frames_c.div_ceil(TREE_FRAMES), "one tree entry per tree");
    if init == 0 {
        let mut same = true;
        for i in 0..32 {
            if unsafe { *lp.add(i) } != lw[i] {
                same = false;
            }
        }
        for i in 0..8 {
            if unsafe { *tp.add(i) } != tw[i] {
                same = false;
            }
        }
        for i in 0..3 {
            if unsafe { *sp.add(i * 8) } != sw[i] {
                same = false;
            }
        }
        vassert!("C07", same, "assume-initialised construction changes no metadata byte");
        // the rebuilt allocator sees exactly the stored slots and counters
        vassert!("C07", get_slot(&a.locals, Class(0), 0) == { let v = sw[0]; (v >> 63 == 1, (v & ((1 << 44) - 1)) as usize, ((v >> 44) & ((1 << 19) - 1)) as usize) }, "the rebuilt allocator reads the stored slot of class 0");
    } else {
        let st = a.stats();
        let ts = a.tree_stats();
        if init != 3 {
            vassert!("C05", ts.free_frames == st.free_frames, "after initialisation the fast and the exact free counts agree");
        }
        if init == 1 {
            vassert!("C06", st.free_frames == frames_c, "a fresh free-all allocator reports every frame free");
        }
        if init == 2 {
            vassert!("C06", st.free_frames == 0, "a fresh allocate-all allocator reports no frame free");
        }
        if init == 3 {
            // recovery from arbitrary persistent contents: volatile state rebuilt, counts agree
            vassert!("C05", ts.free_frames == st.free_frames, "the recovered allocator's fast and exact counts agree");
            for c in 0..NCL {
                if slots_of(cfg, c) > 0 {
                    // (the slot buffer is volatile: recovery starts from whatever the caller provides;
                    // callers pass zeroed buffers, i.e. no reservation)
                }
            }
        }
    }
    core::mem::forget(a);
}

// ---- generated: U-layer harnesses (2 trees, geometry tree_huge_1) ----
// Each harness checks every clause (all are tagged); `props` lists the properties whose quick
// tier runs it, so that the quick tiers stay within minutes. The thorough tier of C09/C18 runs all.

// @h props=C02,C04,C09,C15 tier=quick geom=1 panics=C09 mem=C18
#[kani::proof]
#[kani::unwind(10)]
fn u_put_zeroed_o0() {
    u_put_body::<2>(Cfg::Zeroed, 0, false)
}

// @h props=C02,C04,C18 tier=quick geom=1 panics=C09 mem=C18
#[kani::proof]
#[kani::unwind(10)]
fn u_put_zeroed_o9() {
    u_put_body::<2>(Cfg::Zeroed, 9, false)
}

// @h props=C04,C09 tier=quick geom=1 panics=C09 mem=C18
#[kani::proof]
#[kani::unwind(10)]
fn u_put_zeroslot_o0() {
    u_put_body::<2>(Cfg::ZeroSlot, 0, false)
}

// @h props=C09,C04,C10 tier=thorough geom=1 panics=C09 mem=C18
#[kani::proof]
#[kani::unwind(10)]
fn u_put_drain_zeroed_o0() {
    u_put_body::<2>(Cfg::Zeroed, 0, true)
}

// @h props=C02,C04,C09,C15 tier=thorough geom=1 panics=C09 mem=C18
#[kani::proof]
#[kani::unwind(10)]
fn u_put_movable_o3() {
    u_put_body::<2>(Cfg::Movable, 3, false)
}

// @h props=C02,C04,C09,C15 tier=thorough geom=1 panics=C09 mem=C18
#[kani::proof]
#[kani::unwind(10)]
fn u_put_simple_o9() {
    u_put_body::<2>(Cfg::Simple, 9, false)
}

// @h props=C02,C04,C09,C15 tier=thorough geom=1 panics=C09 mem=C18
#[kani::proof]
#[kani::unwind(10)]
fn u_put_zeroed_o6() {
    u_put_body::<2>(Cfg::Zeroed, 6, false)
}

// @h props=C11,C13,C04 tier=quick geom=1 panics=C09 mem=C18
#[kani::proof]
#[kani::unwind(10)]
fn u_get_local_zeroed_o0() {
    u_comp_body::<2>(Cfg::Zeroed, 0, 0, false, 8)
}

// @h props=C11,C13 tier=quick geom=1 panics=C09 mem=C18
#[kani::proof]
#[kani::unwind(10)]
fn u_get_local_zeroed_o9() {
    u_comp_body::<2>(Cfg::Zeroed, 0, 9, false, 8)
}

// @h props=C09,C13,C02 tier=quick geom=1 panics=C09 mem=C18
#[kani::proof]
#[kani::unwind(10)]
fn u_get_local_at_zeroed_o0() {
    u_comp_body::<2>(Cfg::Zeroed, 0, 0, true, 8)
}

// @h props=C10,C13,C04 tier=quick geom=1 panics=C09 mem=C18
#[kani::proof]
#[kani::unwind(10)]
fn u_reserve_or_steal_zeroed_o0() {
    u_comp_body::<2>(Cfg::Zeroed, 1, 0, false, 8)
}

// @h props=C01,C13,C10 tier=quick geom=1 panics=C09 mem=C18
#[kani::proof]
#[kani::unwind(10)]
fn u_reserve_or_steal_zeroed_o9() {
    u_comp_body::<2>(Cfg::Zeroed, 1, 9, false, 8)
}

// @h props=C01,C10,C13,C15 tier=quick geom=1 panics=C09 mem=C18
#[kani::proof]
#[kani::unwind(10)]
fn u_steal_global_zeroed_o0() {
    u_comp_body::<2>(Cfg::Zeroed, 2, 0, false, 8)
}

// @h props=C10,C13,C15 tier=quick geom=1 panics=C09 mem=C18
#[kani::proof]
#[kani::unwind(10)]
fn u_steal_global_zeroed_o9() {
    u_comp_body::<2>(Cfg::Zeroed, 2, 9, false, 8)
}

// @h props=C02,C10,C13,C15 tier=quick geom=1 panics=C09 mem=C18
#[kani::proof]
#[kani::unwind(10)]
fn u_steal_global_at_zeroed_o0() {
    u_comp_body::<2>(Cfg::Zeroed, 2, 0, true, 8)
}

// @h props=C13 tier=thorough geom=1 panics=C09 mem=C18
#[kani::proof]
#[kani::unwind(10)]
fn u_steal_local_zeroed_c2_o0() {
    u_comp_body::<2>(Cfg::Zeroed, 3, 0, false, 2)
}

// @h props=C13,C09 tier=quick geom=1 panics=C09 mem=C18
#[kani::proof]
#[kani::unwind(10)]
fn u_steal_local_zeroed_c0_o0() {
    u_comp_body::<2>(Cfg::Zeroed, 3, 0, false, 0)
}

// @h props=C13,C09 tier=thorough geom=1 panics=C09 mem=C18
#[kani::proof]
#[kani::unwind(10)]
fn u_demote_local_zeroed_c0_o0() {
    u_comp_body::<2>(Cfg::Zeroed, 4, 0, false, 0)
}

// @h props=C13,C09 tier=thorough geom=1 panics=C09 mem=C18
#[kani::proof]
#[kani::unwind(10)]
fn u_demote_local_zeroed_c1_o0() {
    u_comp_body::<2>(Cfg::Zeroed, 4, 0, false, 1)
}

// @h props=C04,C14 tier=quick geom=1 panics=C04 mem=C18
#[kani::proof]
#[kani::unwind(10)]
fn u_stats_zeroed() {
    u_stats_body::<2>(Cfg::Zeroed, true)
}

// @h props=C04,C14 tier=thorough geom=1 panics=C04 mem=C18
#[kani::proof]
#[kani::unwind(10)]
fn u_stats_zeroed_validate() {
    u_stats_body::<2>(Cfg::Zeroed, false)
}

// @h props=C04,C14 tier=thorough geom=1 panics=C04 mem=C18
#[kani::proof]
#[kani::unwind(10)]
fn u_stats_movable() {
    u_stats_body::<2>(Cfg::Movable, true)
}

// @h props=C15,C09 tier=quick geom=1 panics=C09 mem=C18
#[kani::proof]
#[kani::unwind(10)]
fn u_change_tree_zeroed() {
    u_change_tree_body::<2>(Cfg::Zeroed)
}

// @h props=C15,C09 tier=thorough geom=1 panics=C09 mem=C18
#[kani::proof]
#[kani::unwind(10)]
fn u_change_tree_movable() {
    u_change_tree_body::<2>(Cfg::Movable)
}

// @h props=C10,C04,C09 tier=thorough geom=1 panics=C09 mem=C18
#[kani::proof]
#[kani::unwind(10)]
fn u_drain_zeroed() {
    u_drain_body::<2>(Cfg::Zeroed)
}

// @h props=C10,C09 tier=thorough geom=1 panics=C09 mem=C18
#[kani::proof]
#[kani::unwind(10)]
fn u_drain_zeroslot() {
    u_drain_body::<2>(Cfg::ZeroSlot)
}

// @h props=C07,C18 tier=quick geom=1 panics=C09 mem=C18
#[kani::proof]
#[kani::unwind(34)]
fn u_new_none_f700() {
    u_new_body(0, 700, Cfg::Zeroed)
}

// @h props=C07,C18 tier=quick geom=1 panics=C09 mem=C18
#[kani::proof]
#[kani::unwind(34)]
fn u_new_none_f512() {
    u_new_body(0, 512, Cfg::ZeroSlot)
}

// @h props=C09,C13,C04 tier=thorough geom=1 panics=C09 mem=C18
#[kani::proof]
#[kani::unwind(10)]
fn u_get_local_zeroslot_o0() {
    u_comp_body::<2>(Cfg::ZeroSlot, 0, 0, false, 8)
}

// @h props=C13,C04,C09 tier=thorough geom=1 panics=C09 mem=C18
#[kani::proof]
#[kani::unwind(10)]
fn u_get_local_movable_o3() {
    u_comp_body::<2>(Cfg::Movable, 0, 3, false, 8)
}

// @h props=C13,C04,C09 tier=thorough geom=1 panics=C09 mem=C18
#[kani::proof]
#[kani::unwind(10)]
fn u_get_local_simple_o9() {
    u_comp_body::<2>(Cfg::Simple, 0, 9, false, 8)
}

// @h props=C09,C13,C04 tier=thorough geom=1 panics=C09 mem=C18
#[kani::proof]
#[kani::unwind(10)]
fn u_reserve_or_steal_zeroslot_o0() {
    u_comp_body::<2>(Cfg::ZeroSlot, 1, 0, false, 8)
}

// @h props=C13,C04,C09 tier=thorough geom=1 panics=C09 mem=C18
#[kani::proof]
#[kani::unwind(10)]
fn u_reserve_or_steal_movable_o3() {
    u_comp_body::<2>(Cfg::Movable, 1, 3, false, 8)
}

// @h props=C13,C04,C09 tier=thorough geom=1 panics=C09 mem=C18
#[kani::proof]
#[kani::unwind(10)]
fn u_reserve_or_steal_simple_o9() {
    u_comp_body::<2>(Cfg::Simple, 1, 9, false, 8)
}

// @h props=C09,C13,C04 tier=thorough geom=1 panics=C09 mem=C18
#[kani::proof]
#[kani::unwind(10)]
fn u_steal_global_zeroslot_o0() {
    u_comp_body::<2>(Cfg::ZeroSlot, 2, 0, false, 8)
}

// @h props=C13,C04,C09 tier=thorough geom=1 panics=C09 mem=C18
#[kani::proof]
#[kani::unwind(10)]
fn u_steal_global_movable_o3() {
    u_comp_body::<2>(Cfg::Movable, 2, 3, false, 8)
}

// @h props=C13,C04,C09 tier=thorough geom=1 panics=C09 mem=C18
#[kani::proof]
#[kani::unwind(10)]
fn u_steal_global_simple_o9() {
    u_comp_body::<2>(Cfg::Simple, 2, 9, false, 8)
}

// @h props=C04,C13 tier=thorough geom=1 panics=C09 mem=C18
#[kani::proof]
#[kani::unwind(10)]
fn u_steal_local_at_zeroed_c2_o0() {
    u_comp_body::<2>(Cfg::Zeroed, 3, 0, true, 2)
}

// @h props=C13 tier=thorough geom=1 panics=C09 mem=C18
#[kani::proof]
#[kani::unwind(10)]
fn u_steal_local_zeroed_c2_o9() {
    u_comp_body::<2>(Cfg::Zeroed, 3, 9, false, 2)
}

// @h props=C04,C13 tier=quick geom=1 panics=C09 mem=C18
#[kani::proof]
#[kani::unwind(10)]
fn u_demote_local_at_zeroed_c0_o0() {
    u_comp_body::<2>(Cfg::Zeroed, 4, 0, true, 0)
}
