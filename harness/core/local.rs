//! Harness support + checks for core/src/local.rs
#![allow(dead_code, unused_imports)]
use super::*;
use crate::verif_support::*;
use core::sync::atomic::Ordering::Relaxed;

/// Raw slot access (bypassing the observers)
pub(crate) fn slot_atom<'a>(l: &'a Locals<'a>, class: Class, idx: usize) -> &'a Atom<LocalTree> {
    &l.locals(class).unwrap()[idx].tree
}
pub(crate) fn set_slot(l: &Locals<'_>, class: Class, idx: usize, present: bool, row: usize, free: usize) {
    let v = if present { LocalTree::with(RowId(row), free) } else { LocalTree::none() };
    let a: &Atom<LocalTree> = unsafe { &*(slot_atom(core::mem::transmute(l), class, idx) as *const _) };
    a.0.store(v.into_bits(), Relaxed);
}
/// (present, row, free)
pub(crate) fn get_slot(l: &Locals<'_>, class: Class, idx: usize) -> (bool, usize, usize) {
    let a: &Atom<LocalTree> = unsafe { &*(slot_atom(core::mem::transmute(l), class, idx) as *const _) };
    let v = LocalTree::from_bits(a.0.load(Relaxed));
    (v.present(), v.row().0, v.free())
}
pub(crate) const LOCAL_SIZE: usize = core::mem::size_of::<Local>();
