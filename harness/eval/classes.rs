//! Harnesses for eval/src/classes.rs (C19): every request generated from a class
//! configuration names a configured class and a slot below that class's slot count.
#![allow(dead_code, unused_imports)]
use super::*;
use crate::verif_support::*;

fn any_count() -> Count {
    match kani::any::<u8>() % 5 {
        0 => Count::Zero,
        1 => Count::One,
        2 => Count::Cores,
        3 => Count::CoresHalf,
        _ => Count::Pids,
    }
}
fn count_tag(c: Count) -> u8 {
    c as u8
}

/// The GFP matcher is left at its default (matches everything): nested matchers only change
/// WHICH entry matches, and that choice is already arbitrary through the symbolic order ranges.
/// (A symbolic recursive heap-backed matcher makes symbolic execution explode: `matches` recurses.)
fn any_match() -> GfpMatch {
    GfpMatch::default()
}
/// Exact specialisation of `GfpMatch::matches` for the default matcher used above
/// (`All([])` is true). The real function is recursive over heap data and CBMC would
/// explore every variant arm to the recursion bound.
fn matches_default_model(_m: &GfpMatch, _gfp: u32) -> bool {
    true
}
fn any_class_config() -> ClassConfig {
    let id: u8 = kani::any();
    kani::assume(id < 8);
    let order = if kani::any() {
        let lo: usize = kani::any();
        let hi: usize = kani::any();
        kani::assume(lo <= 16 && hi <= 16);
        Some((lo, hi))
    } else {
        None
    };
    ClassConfig {
        id,
        count: any_count(),
        order,
        gfp: any_match(),
    }
}

/// Slot-count kinds: the slot is below the count, for every core count >= 1.
// @h props=C19 tier=quick geom=4 panics=C19 mem=C18
#[kani::proof]
fn c19_count_slot_below_count() {
    let kind = any_count();
    let cores: usize = kani::any();
    let core: usize = kani::any();
    let pid: usize = kani::any();
    kani::assume(cores >= 1);
    let n = kind.to_count(cores);
    vcover!("C19", matches!(kind, Count::One), "kind one");
    vcover!("C19", matches!(kind, Count::CoresHalf) && cores % 2 == 1 && core > cores, "odd half-cores, core beyond count");
    match kind.to_local(core, cores, pid) {
        Some(l) => vassert!("C19", l < n, "generated slot index is below the class's slot count"),
        None => {}
    }
}

fn request_body<const N: usize>() {
    let mut classes = Vec::with_capacity(N);
    for _ in 0..N {
        classes.push(any_class_config());
    }
    // Validity of a configuration (what `classing()` + `LLFree::new` accept): ids below 8;
    // entries sharing an id use the same slot-count kind (as in results/classes-ilong.json).
    for i in 0..N {
        for j in 0..N {
            if classes[i].id == classes[j].id {
                kani::assume(count_tag(classes[i].count) == count_tag(classes[j].count));
            }
        }
    }
    let cfg = ClassingConfig {
        classes,
        default: 0,
        perfect: (0, 0),
        good: (0, 0),
    };
    let cores: usize = kani::any();
    kani::assume(cores >= 1 && cores <= 1 << 16);
    let order: usize = kani::any();
    let core: usize = kani::any();
    let pid: usize = kani::any();
    let gfp: u32 = kani::any();
    let req = cfg.request(order, core, cores, pid, gfp);
    vcover!("C19", req.local.is_none(), "request without slot");
    vcover!("C19", req.local.is_some() && req.class.0 != cfg.classes[0].id, "non-first class chosen with a slot");
    vassert!("C19", req.order == order, "request keeps the order");
    let mut listed = false;
    let mut slots = 0;
    for c in &cfg.classes {
        if c.id == req.class.0 {
            listed = true;
            slots = c.count.to_count(cores);
        }
    }
    vassert!("C19", listed, "request names a configured class");
    if let Some(l) = req.local {
        vassert!("C19", l < slots, "request slot is below the slot count of its class");
    }
    // the drop glue of the recursive matcher type is irrelevant here and expensive to unwind
    core::mem::forget(cfg);
}

// @h props=C19 tier=quick geom=4 panics=C19 mem=C18
#[kani::proof]
#[kani::unwind(7)]
#[kani::stub(crate::classes::GfpMatch::matches, matches_default_model)]
fn c19_request_2_classes() {
    request_body::<2>()
}
// @h props=C19 tier=thorough geom=4 panics=C19 mem=C18
#[kani::proof]
#[kani::unwind(7)]
#[kani::stub(crate::classes::GfpMatch::matches, matches_default_model)]
fn c19_request_5_classes() {
    request_body::<5>()
}
