#!/usr/bin/env python3
"""Slices the per-event body of the replay loop out of eval/src/bin/replay.rs (current working
tree) and splices it into the harness copy at the marker /*@SLICE@*/.

slice_bin_replay.py <path to replay.rs> <path to harness copy>
The slice runs from the line `let pfn = entry.pfn as usize;` to the end of the
`for (i, entry) in events...` loop. If the markers are gone the check is inconclusive (exit 2)."""
import re, sys
src = open(sys.argv[1]).read()
m = re.search(r"for\s*\(\s*i\s*,\s*entry\s*\)\s*in\s*events[^\{]*\{", src)
if not m:
    print("replay loop header not found"); sys.exit(2)
i = m.end(); depth = 1
while i < len(src) and depth:
    c = src[i]
    if c == "{": depth += 1
    elif c == "}": depth -= 1
    i += 1
if depth:
    print("unbalanced loop body"); sys.exit(2)
body = src[m.end():i - 1]
k = body.find("let pfn = entry.pfn as usize;")
if k < 0:
    print("start marker `let pfn = entry.pfn as usize;` not found"); sys.exit(2)
body = body[k:]
h = open(sys.argv[2]).read()
if "/*@SLICE@*/" not in h:
    print("harness has no slice marker"); sys.exit(2)
open(sys.argv[2], "w").write(h.replace("/*@SLICE@*/", body))
