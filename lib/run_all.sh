#!/bin/sh
# Runs the quick check of every claimed property (evidence generation); logs to logs/run_all.log
cd "$(dirname "$0")/.."
mkdir -p logs
for p in $(python3 -c "import json;print(' '.join(c['property_id'] for c in json.load(open('MANIFEST.json'))['checks']))"); do
  echo "=== $p $(date +%H:%M:%S)" >> logs/run_all.log
  ./check $p --tier ${1:-quick} 2>&1 | grep -E "^\[|VIOLATION|KNOWN" >> logs/run_all.log
done
echo "=== done $(date +%H:%M:%S)" >> logs/run_all.log
