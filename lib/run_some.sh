#!/bin/sh
# lib/run_some.sh <logname> <IDs...>: quick checks of the given properties (evidence), sequentially
cd "$(dirname "$0")/.."
L=logs/$1.log; shift
mkdir -p logs
for p in "$@"; do
  echo "=== $p $(date +%H:%M:%S)" >> $L
  ./check $p --tier quick 2>&1 | grep -E "^\[|VIOLATION|KNOWN" >> $L
done
echo "=== done $(date +%H:%M:%S)" >> $L
