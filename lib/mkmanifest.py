#!/usr/bin/env python3
"""Regenerates /verif/MANIFEST.json from lib/claims.json (claimed checks) and lib/not_applicable.json."""
import json, os, subprocess
V = os.path.dirname(os.path.dirname(os.path.abspath(__file__)))
claims = json.load(open(os.path.join(V, "lib", "claims.json")))
na = json.load(open(os.path.join(V, "lib", "not_applicable.json")))
props = [json.loads(l)["id"] for l in open(os.path.join(V, "properties.jsonl"))]
try:
    hook_commits = subprocess.run(["git", "-C", "/repo", "log", "--format=%H", "--grep=^verif:"], capture_output=True, text=True).stdout.split()
except Exception:
    hook_commits = []
checks = []
for p in props:
    c = claims.get(p)
    if not c or not c.get("claimed", True):
        continue
    checks.append({
        "property_id": p,
        "quick_cmd": f"./check {p} --tier quick",
        "thorough_cmd": f"./check {p} --tier thorough",
        "evidence_file": f"/verif/evidence/{p}.json",
        "replay_cmd_template": f"./check {p} --replay {{path}}",
        "engine": "kani",
        "level_claimed": {"category": c.get("level", "model_checking"), "text": c["text"], "design_ref": c.get("design_ref", f"DESIGN.md §4 {p}")},
        "level_note": c.get("note", ""),
        "technique": c.get("technique", "bounded symbolic execution of the real Rust code (Kani/CBMC), SAT verdict over all inputs within the bounds"),
    })
claimed = {c["property_id"] for c in checks}
not_app = [{"property_id": p, "reason": na.get(p, "no check built yet for this property (work in progress); nothing is claimed")} for p in props if p not in claimed]
m = {
    "version": 1,
    "setup_cmd": "python3 lib/setup.py",
    "hooks": {
        "guard": "cargo feature `verif` of crate llfree (forwarded by llfree-eval)",
        "enable": "cargo kani --features verif,<geometry> in a scratch copy of /repo's working tree (harness modules are injected into the copy, never into /repo)",
        "baseline_off_cmd": "cd /repo && cargo test --workspace --no-fail-fast --offline",
        "source_commits": hook_commits,
        "add_only": True,
    },
    "engines": [{
        "name": "kani", "path": "/verif/lib/runner.py", "serves_properties": sorted(claimed),
        "kind_free_text": "Kani 0.68 (CBMC 6.11 + CaDiCaL) bounded model checking of the compiled MIR of llfree / llfree-eval with symbolic states, inputs, interference, crash points; counterexamples replayed natively by Kani concrete playback",
    }],
    "checks": checks,
    "not_applicable": not_app,
    "notes": "Every check copies /repo's working tree to a scratch directory under /var/tmp, injects the harness modules from /verif/harness and rebuilds with cargo kani; nothing is cached between runs. Exit 2 = inconclusive (build failure, timeout, memory cap, unsatisfied vacuity witness) and never prints VIOLATION.",
}
json.dump(m, open(os.path.join(V, "MANIFEST.json"), "w"), indent=1)
print("claimed:", sorted(claimed))
