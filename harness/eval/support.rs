//! Shared macros for the llfree-eval harnesses (cfg(kani) only).
#![allow(dead_code, unused_macros)]
macro_rules! vassert {
    ($p:literal, $cond:expr, $msg:literal) => {
        kani::assert($cond, concat!("[", $p, "] ", $msg))
    };
}
macro_rules! vcover {
    ($p:literal, $cond:expr, $msg:literal) => {
        kani::cover($cond, concat!("[", $p, "] cover: ", $msg))
    };
}
pub(crate) use {vassert, vcover};
