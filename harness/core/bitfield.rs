//! Harnesses for core/src/bitfield.rs (child module: sees private items).
//!
//! B layer of DESIGN.md: one symbolic bitfield (all 2^512 contents), one call, exact contract.
#![allow(dead_code, unused_imports)]
use super::*;
use crate::verif_support::*;

/// Reference: lowest aligned all-zero block of 2^order bits in a row.
fn ref_fza(v: u64, order: usize) -> Option<(u64, usize)> {
    let n = 1usize << order;
    let mut off = 0usize;
    while off < 64 {
        let mask = (u64::MAX >> (64 - n)) << off;
        if v & mask == 0 {
            return Some((v | mask, off));
        }
        off += n;
    }
    None
}

fn c23_body(order: usize) {
    let v: u64 = kani::any();
    let r = first_zeros_aligned(v, order);
    let e = ref_fza(v, order);
    vcover!("C23", r.is_some() && (order == 6 || v != 0), "block found (in a non-empty row for orders below 6)");
    vcover!("C23", r.is_none(), "no block");
    vassert!("C23", r.is_none() == e.is_none(), "reports no block exactly when the row has no free aligned block");
    if let (Some((rv, ro)), Some((ev, eo))) = (r, e) {
        vassert!("C23", ro == eo, "reports the lowest free aligned block");
        vassert!("C23", rv == ev, "returns the row with exactly that block's bits additionally set");
    }
}

// ---------------------------------------------------------------------------------------------
// Symbolic bitfields and the bit-level reference model
// ---------------------------------------------------------------------------------------------
pub(crate) const NROWS: usize = ROWS;

impl Bitfield {
    /// (harness) raw access to the rows, bypassing the observers
    pub(crate) fn row_atom(&self, r: usize) -> &Atom<u64> {
        &self.data[r]
    }
    pub(crate) fn data_ptr(&self) -> *const u8 {
        self.data.as_ptr().cast()
    }
}
/// Which row (and byte shift inside it) an atomic access at `addr` touches. Pointer equality
/// first: with concrete addresses CBMC folds it to a constant (keeps all ghost indices concrete).
pub(crate) fn row_of_addr(b: &Bitfield, addr: *const u8) -> Option<(usize, usize)> {
    for r in 0..ROWS {
        if core::ptr::eq(addr, (&b.data[r] as *const Atom<u64>).cast()) {
            return Some((r, 0));
        }
    }
    let off = (addr as usize).wrapping_sub(b.data.as_ptr() as usize);
    if off < ROWS * 8 { Some((off / 8, (off % 8) * 8)) } else { None }
}
pub(crate) fn any_bitfield() -> Bitfield {
    Bitfield { data: core::array::from_fn(|_| Atom::new(kani::any())) }
}
pub(crate) fn bitfield_from(rows: [u64; ROWS]) -> Bitfield {
    Bitfield { data: core::array::from_fn(|i| Atom::new(rows[i])) }
}
/// Raw rows, bypassing the observers.
pub(crate) fn rows_of(b: &Bitfield) -> [u64; ROWS] {
    core::array::from_fn(|i| b.data[i].0.load(core::sync::atomic::Ordering::Relaxed))
}
pub(crate) fn set_rows(b: &Bitfield, rows: &[u64; ROWS]) {
    for i in 0..ROWS {
        b.data[i].0.store(rows[i], core::sync::atomic::Ordering::Relaxed);
    }
}
/// Mask of the block [off, off + 2^order) restricted to row `r` (off is aligned to 2^order).
pub(crate) fn block_mask(r: usize, off: usize, order: usize) -> u64 {
    let n = 1usize << order;
    if n >= 64 {
        if r >= off / 64 && r < (off + n) / 64 { u64::MAX } else { 0 }
    } else if r == off / 64 {
        (u64::MAX >> (64 - n)) << (off % 64)
    } else {
        0
    }
}
pub(crate) fn block_all(rows: &[u64; ROWS], off: usize, order: usize, set: bool) -> bool {
    let mut ok = true;
    for r in 0..ROWS {
        let m = block_mask(r, off, order);
        if (if set { !rows[r] } else { rows[r] }) & m != 0 {
            ok = false;
        }
    }
    ok
}
/// post == pre with exactly the block's bits flipped
pub(crate) fn flipped(pre: &[u64; ROWS], post: &[u64; ROWS], off: usize, order: usize) -> bool {
    let mut ok = true;
    for r in 0..ROWS {
        if post[r] != pre[r] ^ block_mask(r, off, order) {
            ok = false;
        }
    }
    ok
}
pub(crate) fn same(pre: &[u64; ROWS], post: &[u64; ROWS]) -> bool {
    let mut ok = true;
    for r in 0..ROWS {
        if post[r] != pre[r] {
            ok = false;
        }
    }
    ok
}
pub(crate) fn zeros(rows: &[u64; ROWS]) -> usize {
    let mut n = 0usize;
    for r in 0..ROWS {
        n += rows[r].count_zeros() as usize;
    }
    n
}

/// Any frame id (below 2^40) aligned to `order`; returns (frame, offset inside its huge frame).
pub(crate) fn any_aligned_frame(order: usize) -> (FrameId, usize) {
    let f: usize = kani::any();
    kani::assume(f < (1 << 40) && f % (1 << order) == 0);
    (FrameId(f), f % Bitfield::LEN)
}

fn toggle_body(order: usize) {
    let b = any_bitfield();
    let pre = rows_of(&b);
    let (frame, off) = any_aligned_frame(order);
    let expected: bool = kani::any();
    install(Mode::Seq);
    let r = b.toggle(frame, order, expected);
    set_mode(Mode::Off);
    let post = rows_of(&b);
    let was = block_all(&pre, off, order, expected);
    vcover!("C02", r.is_ok() && expected, "free toggles a held block");
    vcover!("C02", r.is_err(), "toggle refused");
    vassert!("C02", r.is_ok() == was, "a block is toggled exactly when all its bits have the expected state");
    if r.is_ok() {
        vassert!("C02", flipped(&pre, &post, off, order), "exactly the block's bits change");
    } else {
        vassert!("C02", r == Err(Error::Memory), "refusal is reported as out of memory");
        vassert!("C02", same(&pre, &post), "a refused toggle changes nothing");
    }
}

fn set_first_zeros_body(order: usize) {
    let b = any_bitfield();
    let pre = rows_of(&b);
    let start: usize = kani::any();
    kani::assume(start < (1 << 34));
    install(Mode::Seq);
    let r = b.set_first_zeros(RowId(start), order);
    set_mode(Mode::Off);
    let post = rows_of(&b);
    // witness: an arbitrary aligned position
    let p: usize = kani::any();
    kani::assume(p < Bitfield::LEN && p % (1 << order) == 0);
    vcover!("C12", r.is_ok() && (order == Bitfield::ORDER || pre[0] != 0), "block found (in a partially used bitfield below the huge order)");
    vcover!("C12", r.is_err(), "no block");
    match r {
        Ok(f) => {
            vassert!("C01", f.0 < Bitfield::LEN && f.0 % (1 << order) == 0, "found block is aligned and inside the bitfield");
            vassert!("C01", block_all(&pre, f.0, order, false), "found block was entirely free");
            vassert!("C12", flipped(&pre, &post, f.0, order), "a success marks exactly that block");
        }
        Err(e) => {
            vassert!("C12", e == Error::Memory, "failure is out of memory");
            vassert!("C12", same(&pre, &post), "a failed search changes nothing");
            vassert!("C12", !block_all(&pre, p, order, false), "search fails only if no aligned block of the order is free");
        }
    }
}

fn is_zero_body(order: usize) {
    let b = any_bitfield();
    let pre = rows_of(&b);
    let (frame, off) = any_aligned_frame(order);
    // `is_zero` is only called with frames inside the bitfield's huge frame by `Lower`; it indexes
    // rows modulo the bitfield, except that multi-row ranges must not wrap: any frame qualifies.
    let r = b.is_zero(frame, order);
    vassert!("C04", r == block_all(&pre, off, order, false), "is_zero reports exactly whether the block is free");
    vassert!("C04", same(&pre, &rows_of(&b)), "queries change nothing");
}

// @h props=C04,C06 tier=quick geom=4 panics=C09 mem=C18
#[kani::proof]
#[kani::unwind(34)]
fn b_count_fill_set() {
    let b = any_bitfield();
    let pre = rows_of(&b);
    vassert!("C04", b.count_zeros() == zeros(&pre), "count_zeros is the number of clear bits");
    let lo: usize = kani::any();
    let hi: usize = kani::any();
    // (`Lower::free_all` is the only caller and passes ranges relative to the bitfield)
    let base: usize = 0;
    // (free_all only passes non-empty ranges, or 0..0)
    kani::assume((lo < hi || hi == 0) && hi <= Bitfield::LEN);
    let v: bool = kani::any();
    b.set(FrameId(base * Bitfield::LEN + lo)..FrameId(base * Bitfield::LEN + hi), v);
    let post = rows_of(&b);
    let w: usize = kani::any();
    kani::assume(w < Bitfield::LEN);
    let bit = |rows: &[u64; ROWS], i: usize| rows[i / 64] >> (i % 64) & 1 == 1;
    if w >= lo && w < hi {
        vassert!("C06", bit(&post, w) == v, "set writes every bit of the range");
    } else {
        vassert!("C06", bit(&post, w) == bit(&pre, w), "set leaves bits outside the range alone");
    }
    b.fill(v);
    let post = rows_of(&b);
    vassert!("C06", bit(&post, w) == v, "fill writes every bit");
}

/// Arithmetic lemmas that justify the delta-form contracts of the lower-layer harnesses
/// (DESIGN.md §3): they relate the popcount of a bitfield to aligned blocks.
fn lemma_popcount_block_body(order: usize) {
    let rows: [u64; ROWS] = kani::any();
    let p: usize = kani::any();
    kani::assume(p < Bitfield::LEN && p % (1 << order) == 0);
    let z = zeros(&rows);
    let mut post = rows;
    for r in 0..ROWS {
        post[r] ^= block_mask(r, p, order);
    }
    let zp = zeros(&post);
    if block_all(&rows, p, order, false) {
        vassert!("C02", z >= (1 << order), "lemma: a free aligned block of order k implies at least 2^k clear bits");
        vassert!("C02", zp + (1 << order) == z, "lemma: setting a free block lowers the clear-bit count by exactly 2^k");
    }
    if block_all(&rows, p, order, true) {
        vassert!("C02", z + (1 << order) <= Bitfield::LEN, "lemma: a fully set aligned block of order k implies at most LEN - 2^k clear bits");
        vassert!("C02", zp == z + (1 << order), "lemma: clearing a set block raises the clear-bit count by exactly 2^k");
    }
}
// @h props=C02,C04,C05 tier=quick geom=4 panics=- mem=- role=lemma
#[kani::proof]
#[kani::unwind(34)]
fn lemma_popcount_extremes() {
    let rows: [u64; ROWS] = kani::any();
    let z = zeros(&rows);
    if z == Bitfield::LEN {
        vassert!("C02", same(&rows, &[0; ROWS]), "lemma: LEN clear bits means every row is zero");
    }
    if z > 0 {
        let mut some = false;
        for r in 0..ROWS {
            if rows[r] != u64::MAX {
                some = true;
            }
        }
        vassert!("C02", some, "lemma: a positive clear-bit count means some row is not full");
    }
}

// ---------------------------------------------------------------------------------------------
// Interference (thread-modular rely/guarantee, DESIGN.md §1.2): other threads run between
// every two atomic accesses of the call under test.
//   rely:       nobody clears a bit it does not own -> bits in MINE stay set
//   guarantee:  (O2) every bit my RMWs clear is in MINE (or in the block handed to me for a free)
//   results:    (O1) Ok(block) => block is a subset of MINE and all of its bits are set
//               (O3) Err => MINE is empty
// O2 for every operation discharges the rely for every other thread; O1 gives disjointness of
// held blocks at every instant, for any number of threads.
// ---------------------------------------------------------------------------------------------
static mut BF: *const Bitfield = core::ptr::null();
/// Bits this call owns (set by its own successful RMWs, or handed in by the caller for a free).
static mut MINE: [u64; ROWS] = [0; ROWS];
/// Set when one of my RMWs cleared a bit that was not mine.
static mut CLEARED_FOREIGN: bool = false;
static mut ENV_STEPS: usize = 0;

/// One environment step, taken before each of my atomic accesses: the word I am about to access
/// may have been changed arbitrarily by other threads, except that bits I own stay set.
/// (The rely is per word and I observe memory only through my accesses, so changing exactly the
/// accessed word right before each access covers every behaviour of the other threads.)
fn bf_env(addr: *const u8, _size: usize) {
    unsafe {
        let b = &*BF;
        if let Some((r, _)) = row_of_addr(b, addr)
            && kani::any()
        {
            let v: u64 = kani::any();
            b.data[r].0.store(v | MINE[r], core::sync::atomic::Ordering::Relaxed);
            ENV_STEPS += 1;
        }
    }
}
/// Ghost update for my own successful writes (any access width).
fn bf_on_write(addr: *const u8, size: usize, old: u64, new: u64) {
    unsafe {
        let Some((r, sh)) = row_of_addr(&*BF, addr) else {
            return;
        };
        let (old, new) = if size >= 8 { (old, new) } else { ((old & ((1u64 << (size * 8)) - 1)) << sh, (new & ((1u64 << (size * 8)) - 1)) << sh) };
        let set = new & !old;
        let cleared = old & !new;
        if cleared & !MINE[r] != 0 {
            CLEARED_FOREIGN = true;
        }
        MINE[r] = (MINE[r] | set) & !cleared;
    }
}
fn bf_interference(b: &Bitfield, freeze: bool) {
    unsafe {
        BF = b;
        MINE = [0; ROWS];
        CLEARED_FOREIGN = false;
        ENV_STEPS = 0;
        ENV = Some(bf_env);
        ON_WRITE = Some(bf_on_write);
        FREEZE_AT = if freeze { kani::any() } else { usize::MAX };
    }
    install(Mode::Interference);
}
fn mine() -> [u64; ROWS] {
    unsafe { MINE }
}
fn mine_is_block(off: usize, order: usize) -> bool {
    let m = mine();
    let mut ok = true;
    for r in 0..ROWS {
        if m[r] != block_mask(r, off, order) {
            ok = false;
        }
    }
    ok
}
fn mine_empty() -> bool {
    same(&mine(), &[0; ROWS])
}

/// Untargeted allocation inside one bitfield under interference.
fn int_set_first_zeros_body(order: usize, freeze: bool) {
    let b = any_bitfield();
    // The row hint only rotates the search order (all hints are covered sequentially by
    // b_set_first_zeros_*); two concrete hints keep every address in this harness concrete.
    let start: usize = if kani::any() { 0 } else { 5 };
    bf_interference(&b, freeze);
    let r = b.set_first_zeros(RowId(start), order);
    set_mode(Mode::Off);
    let now = rows_of(&b);
    vcover!("C01", r.is_ok() && unsafe { ENV_STEPS } > 0, "allocation succeeds although other threads interfered");
    vcover!("C01", r.is_err() && unsafe { ENV_STEPS } > 0, "allocation fails under interference");
    vassert!("C01", !unsafe { CLEARED_FOREIGN }, "(O2) the call never clears a bit it does not own");
    match r {
        Ok(f) => {
            vassert!("C01", f.0 < Bitfield::LEN && f.0 % (1 << order) == 0, "granted block is aligned and inside the bitfield");
            vassert!("C01", mine_is_block(f.0, order), "(O1) the granted block is exactly what this call marked itself (no other thread can hold any part of it)");
            vassert!("C01", block_all(&now, f.0, order, true), "(O1) every frame of the granted block is marked allocated");
        }
        Err(_) => {
            vassert!("C01", mine_empty(), "(O3) a failed allocation keeps nothing marked");
        }
    }
    if freeze {
        vassert!("C21", unsafe { STEPS_FROZEN } <= 4 * ROWS + 4, "the call finishes within a bounded number of steps once it runs alone");
    }
}

/// Targeted allocation (toggle 0 -> 1) and free of a held block (toggle 1 -> 0) under interference.
fn int_toggle_body(order: usize, free: bool, freeze: bool) {
    let b = any_bitfield();
    let (frame, off) = any_aligned_frame(order);
    bf_interference(&b, freeze);
    if free {
        // the caller holds the block: its bits are set and owned
        unsafe {
            for r in 0..ROWS {
                MINE[r] = block_mask(r, off, order);
                let v = b.data[r].0.load(core::sync::atomic::Ordering::Relaxed);
                b.data[r].0.store(v | MINE[r], core::sync::atomic::Ordering::Relaxed);
            }
        }
    }
    let r = b.toggle(frame, order, free);
    set_mode(Mode::Off);
    let now = rows_of(&b);
    vcover!("C01", r.is_ok() && unsafe { ENV_STEPS } > 0, "toggle succeeds although other threads interfered");
    vassert!("C01", !unsafe { CLEARED_FOREIGN }, "(O2) the call never clears a bit it does not own");
    if free {
        vassert!("C03", r.is_ok(), "a free of a held block always succeeds");
        vassert!("C01", mine_empty(), "after the free the call owns nothing");
    } else {
        match r {
            Ok(()) => {
                vassert!("C01", mine_is_block(off, order), "(O1) the granted block is exactly what this call marked itself");
                vassert!("C01", block_all(&now, off, order, true), "(O1) every frame of the granted block is marked allocated");
            }
            Err(_) => vassert!("C01", mine_empty(), "(O3) a failed allocation keeps nothing marked"),
        }
    }
    if freeze {
        vassert!("C21", unsafe { STEPS_FROZEN } <= 4 * ROWS + 4, "the call finishes within a bounded number of steps once it runs alone");
    }
}

// @h props=C23 tier=quick geom=4 panics=C23 mem=C18
#[kani::proof]
#[kani::unwind(66)]
fn c23_fza_o0() {
    c23_body(0)
}
#[kani::proof]
#[kani::unwind(34)]
fn c23_fza_o1() {
    c23_body(1)
}
#[kani::proof]
#[kani::unwind(18)]
fn c23_fza_o2() {
    c23_body(2)
}
#[kani::proof]
#[kani::unwind(10)]
fn c23_fza_o3() {
    c23_body(3)
}
#[kani::proof]
#[kani::unwind(6)]
fn c23_fza_o4() {
    c23_body(4)
}
#[kani::proof]
#[kani::unwind(4)]
fn c23_fza_o5() {
    c23_body(5)
}
#[kani::proof]
#[kani::unwind(3)]
fn c23_fza_o6() {
    c23_body(6)
}

// @h props=C02,C18 tier=quick geom=4 tgeom= panics=C09 mem=C18
#[kani::proof]
#[kani::unwind(10)]
fn b_toggle_o0() {
    toggle_body(0)
}
#[kani::proof]
#[kani::unwind(10)]
fn b_toggle_o1() {
    toggle_body(1)
}
#[kani::proof]
#[kani::unwind(10)]
fn b_toggle_o2() {
    toggle_body(2)
}
#[kani::proof]
#[kani::unwind(10)]
fn b_toggle_o3() {
    toggle_body(3)
}
#[kani::proof]
#[kani::unwind(10)]
fn b_toggle_o4() {
    toggle_body(4)
}
#[kani::proof]
#[kani::unwind(10)]
fn b_toggle_o5() {
    toggle_body(5)
}
#[kani::proof]
#[kani::unwind(10)]
fn b_toggle_o6() {
    toggle_body(6)
}
#[kani::proof]
#[kani::unwind(10)]
fn b_toggle_o7() {
    toggle_body(7)
}
#[kani::proof]
#[kani::unwind(10)]
fn b_toggle_o8() {
    toggle_body(8)
}
#[kani::proof]
#[kani::unwind(10)]
fn b_toggle_o9() {
    toggle_body(9)
}

// @h props=C12,C01,C02 tier=quick geom=4 tgeom= panics=C09 mem=C18
#[kani::proof]
#[kani::unwind(10)]
fn b_set_first_zeros_o0() {
    set_first_zeros_body(0)
}
#[kani::proof]
#[kani::unwind(10)]
fn b_set_first_zeros_o1() {
    set_first_zeros_body(1)
}
#[kani::proof]
#[kani::unwind(10)]
fn b_set_first_zeros_o2() {
    set_first_zeros_body(2)
}
#[kani::proof]
#[kani::unwind(10)]
fn b_set_first_zeros_o3() {
    set_first_zeros_body(3)
}
#[kani::proof]
#[kani::unwind(10)]
fn b_set_first_zeros_o4() {
    set_first_zeros_body(4)
}
#[kani::proof]
#[kani::unwind(10)]
fn b_set_first_zeros_o5() {
    set_first_zeros_body(5)
}
#[kani::proof]
#[kani::unwind(10)]
fn b_set_first_zeros_o6() {
    set_first_zeros_body(6)
}
#[kani::proof]
#[kani::unwind(10)]
fn b_set_first_zeros_o7() {
    set_first_zeros_body(7)
}
#[kani::proof]
#[kani::unwind(10)]
fn b_set_first_zeros_o8() {
    set_first_zeros_body(8)
}
#[kani::proof]
#[kani::unwind(10)]
fn b_set_first_zeros_o9() {
    set_first_zeros_body(9)
}

// @h props=C04 tier=quick geom=4 tgeom= panics=C09 mem=C18
#[kani::proof]
#[kani::unwind(10)]
fn b_is_zero_o0() {
    is_zero_body(0)
}
#[kani::proof]
#[kani::unwind(10)]
fn b_is_zero_o3() {
    is_zero_body(3)
}
#[kani::proof]
#[kani::unwind(10)]
fn b_is_zero_o6() {
    is_zero_body(6)
}
#[kani::proof]
#[kani::unwind(10)]
fn b_is_zero_o7() {
    is_zero_body(7)
}
#[kani::proof]
#[kani::unwind(10)]
fn b_is_zero_o9() {
    is_zero_body(9)
}

// @h props=C02,C01 tier=thorough geom=16K1 tgeom= panics=C09 mem=C18
#[kani::proof]
#[kani::unwind(34)]
fn b16k_toggle_o0() {
    toggle_body(0)
}
#[kani::proof]
#[kani::unwind(34)]
fn b16k_toggle_o5() {
    toggle_body(5)
}
#[kani::proof]
#[kani::unwind(34)]
fn b16k_toggle_o6() {
    toggle_body(6)
}
#[kani::proof]
#[kani::unwind(34)]
fn b16k_toggle_o7() {
    toggle_body(7)
}
#[kani::proof]
#[kani::unwind(34)]
fn b16k_toggle_o10() {
    toggle_body(10)
}
#[kani::proof]
#[kani::unwind(34)]
fn b16k_toggle_o11() {
    toggle_body(11)
}

// @h props=C12,C01,C02 tier=thorough geom=16K1 tgeom= panics=C09 mem=C18
#[kani::proof]
#[kani::unwind(34)]
fn b16k_set_first_zeros_o0() {
    set_first_zeros_body(0)
}
#[kani::proof]
#[kani::unwind(34)]
fn b16k_set_first_zeros_o5() {
    set_first_zeros_body(5)
}
#[kani::proof]
#[kani::unwind(34)]
fn b16k_set_first_zeros_o6() {
    set_first_zeros_body(6)
}
#[kani::proof]
#[kani::unwind(34)]
fn b16k_set_first_zeros_o7() {
    set_first_zeros_body(7)
}
#[kani::proof]
#[kani::unwind(34)]
fn b16k_set_first_zeros_o10() {
    set_first_zeros_body(10)
}
#[kani::proof]
#[kani::unwind(34)]
fn b16k_set_first_zeros_o11() {
    set_first_zeros_body(11)
}

// @h props=C02,C04,C05 tier=quick geom=4 panics=- mem=- role=lemma
#[kani::proof]
#[kani::unwind(34)]
fn lemma_popcount_block_o0() {
    lemma_popcount_block_body(0)
}
#[kani::proof]
#[kani::unwind(34)]
fn lemma_popcount_block_o1() {
    lemma_popcount_block_body(1)
}
#[kani::proof]
#[kani::unwind(34)]
fn lemma_popcount_block_o2() {
    lemma_popcount_block_body(2)
}
#[kani::proof]
#[kani::unwind(34)]
fn lemma_popcount_block_o3() {
    lemma_popcount_block_body(3)
}
#[kani::proof]
#[kani::unwind(34)]
fn lemma_popcount_block_o4() {
    lemma_popcount_block_body(4)
}
#[kani::proof]
#[kani::unwind(34)]
fn lemma_popcount_block_o5() {
    lemma_popcount_block_body(5)
}
#[kani::proof]
#[kani::unwind(34)]
fn lemma_popcount_block_o6() {
    lemma_popcount_block_body(6)
}
#[kani::proof]
#[kani::unwind(34)]
fn lemma_popcount_block_o7() {
    lemma_popcount_block_body(7)
}
#[kani::proof]
#[kani::unwind(34)]
fn lemma_popcount_block_o8() {
    lemma_popcount_block_body(8)
}
#[kani::proof]
#[kani::unwind(34)]
fn lemma_popcount_block_o9() {
    lemma_popcount_block_body(9)
}

// @h props=C01,C03 tier=quick geom=4 panics=C03 mem=C18 unwind=C21
#[kani::proof]
#[kani::unwind(10)]
#[kani::stub(core::hint::spin_loop, crate::verif_support::spin_loop_model)]
fn bi_set_first_zeros_o0() {
    int_set_first_zeros_body(0, false)
}
#[kani::proof]
#[kani::unwind(10)]
#[kani::stub(core::hint::spin_loop, crate::verif_support::spin_loop_model)]
fn bi_set_first_zeros_o3() {
    int_set_first_zeros_body(3, false)
}
#[kani::proof]
#[kani::unwind(10)]
#[kani::stub(core::hint::spin_loop, crate::verif_support::spin_loop_model)]
fn bi_set_first_zeros_o6() {
    int_set_first_zeros_body(6, false)
}
#[kani::proof]
#[kani::unwind(10)]
#[kani::stub(core::hint::spin_loop, crate::verif_support::spin_loop_model)]
fn bi_set_first_zeros_o7() {
    int_set_first_zeros_body(7, false)
}
#[kani::proof]
#[kani::unwind(10)]
#[kani::stub(core::hint::spin_loop, crate::verif_support::spin_loop_model)]
fn bi_set_first_zeros_o8() {
    int_set_first_zeros_body(8, false)
}

// @h props=C01,C03 tier=thorough geom=4 panics=C03 mem=C18 unwind=C21
#[kani::proof]
#[kani::unwind(10)]
#[kani::stub(core::hint::spin_loop, crate::verif_support::spin_loop_model)]
fn bi_set_first_zeros_o1() {
    int_set_first_zeros_body(1, false)
}
#[kani::proof]
#[kani::unwind(10)]
#[kani::stub(core::hint::spin_loop, crate::verif_support::spin_loop_model)]
fn bi_set_first_zeros_o2() {
    int_set_first_zeros_body(2, false)
}
#[kani::proof]
#[kani::unwind(10)]
#[kani::stub(core::hint::spin_loop, crate::verif_support::spin_loop_model)]
fn bi_set_first_zeros_o4() {
    int_set_first_zeros_body(4, false)
}
#[kani::proof]
#[kani::unwind(10)]
#[kani::stub(core::hint::spin_loop, crate::verif_support::spin_loop_model)]
fn bi_set_first_zeros_o5() {
    int_set_first_zeros_body(5, false)
}
#[kani::proof]
#[kani::unwind(10)]
#[kani::stub(core::hint::spin_loop, crate::verif_support::spin_loop_model)]
fn bi_set_first_zeros_o9() {
    int_set_first_zeros_body(9, false)
}

// @h props=C01,C03 tier=quick geom=4 panics=C03 mem=C18 unwind=C21
#[kani::proof]
#[kani::unwind(10)]
#[kani::stub(core::hint::spin_loop, crate::verif_support::spin_loop_model)]
fn bi_toggle_alloc_o0() {
    int_toggle_body(0, false, false)
}
#[kani::proof]
#[kani::unwind(10)]
#[kani::stub(core::hint::spin_loop, crate::verif_support::spin_loop_model)]
fn bi_toggle_alloc_o1() {
    int_toggle_body(1, false, false)
}
#[kani::proof]
#[kani::unwind(10)]
#[kani::stub(core::hint::spin_loop, crate::verif_support::spin_loop_model)]
fn bi_toggle_alloc_o2() {
    int_toggle_body(2, false, false)
}
#[kani::proof]
#[kani::unwind(10)]
#[kani::stub(core::hint::spin_loop, crate::verif_support::spin_loop_model)]
fn bi_toggle_alloc_o3() {
    int_toggle_body(3, false, false)
}
#[kani::proof]
#[kani::unwind(10)]
#[kani::stub(core::hint::spin_loop, crate::verif_support::spin_loop_model)]
fn bi_toggle_alloc_o4() {
    int_toggle_body(4, false, false)
}
#[kani::proof]
#[kani::unwind(10)]
#[kani::stub(core::hint::spin_loop, crate::verif_support::spin_loop_model)]
fn bi_toggle_alloc_o5() {
    int_toggle_body(5, false, false)
}
#[kani::proof]
#[kani::unwind(10)]
#[kani::stub(core::hint::spin_loop, crate::verif_support::spin_loop_model)]
fn bi_toggle_alloc_o6() {
    int_toggle_body(6, false, false)
}
#[kani::proof]
#[kani::unwind(10)]
#[kani::stub(core::hint::spin_loop, crate::verif_support::spin_loop_model)]
fn bi_toggle_alloc_o7() {
    int_toggle_body(7, false, false)
}
#[kani::proof]
#[kani::unwind(10)]
#[kani::stub(core::hint::spin_loop, crate::verif_support::spin_loop_model)]
fn bi_toggle_alloc_o8() {
    int_toggle_body(8, false, false)
}
#[kani::proof]
#[kani::unwind(10)]
#[kani::stub(core::hint::spin_loop, crate::verif_support::spin_loop_model)]
fn bi_toggle_alloc_o9() {
    int_toggle_body(9, false, false)
}

// @h props=C01,C03 tier=quick geom=4 panics=C03 mem=C18 unwind=C21
#[kani::proof]
#[kani::unwind(10)]
#[kani::stub(core::hint::spin_loop, crate::verif_support::spin_loop_model)]
fn bi_toggle_free_o0() {
    int_toggle_body(0, true, false)
}
#[kani::proof]
#[kani::unwind(10)]
#[kani::stub(core::hint::spin_loop, crate::verif_support::spin_loop_model)]
fn bi_toggle_free_o1() {
    int_toggle_body(1, true, false)
}
#[kani::proof]
#[kani::unwind(10)]
#[kani::stub(core::hint::spin_loop, crate::verif_support::spin_loop_model)]
fn bi_toggle_free_o2() {
    int_toggle_body(2, true, false)
}
#[kani::proof]
#[kani::unwind(10)]
#[kani::stub(core::hint::spin_loop, crate::verif_support::spin_loop_model)]
fn bi_toggle_free_o3() {
    int_toggle_body(3, true, false)
}
#[kani::proof]
#[kani::unwind(10)]
#[kani::stub(core::hint::spin_loop, crate::verif_support::spin_loop_model)]
fn bi_toggle_free_o4() {
    int_toggle_body(4, true, false)
}
#[kani::proof]
#[kani::unwind(10)]
#[kani::stub(core::hint::spin_loop, crate::verif_support::spin_loop_model)]
fn bi_toggle_free_o5() {
    int_toggle_body(5, true, false)
}
#[kani::proof]
#[kani::unwind(10)]
#[kani::stub(core::hint::spin_loop, crate::verif_support::spin_loop_model)]
fn bi_toggle_free_o6() {
    int_toggle_body(6, true, false)
}
#[kani::proof]
#[kani::unwind(10)]
#[kani::stub(core::hint::spin_loop, crate::verif_support::spin_loop_model)]
fn bi_toggle_free_o7() {
    int_toggle_body(7, true, false)
}
#[kani::proof]
#[kani::unwind(10)]
#[kani::stub(core::hint::spin_loop, crate::verif_support::spin_loop_model)]
fn bi_toggle_free_o8() {
    int_toggle_body(8, true, false)
}
#[kani::proof]
#[kani::unwind(10)]
#[kani::stub(core::hint::spin_loop, crate::verif_support::spin_loop_model)]
fn bi_toggle_free_o9() {
    int_toggle_body(9, true, false)
}

// @h props=C21 tier=quick geom=4 panics=C03 mem=C18 unwind=C21
#[kani::proof]
#[kani::unwind(10)]
#[kani::stub(core::hint::spin_loop, crate::verif_support::spin_loop_model)]
fn bf_set_first_zeros_o3() {
    int_set_first_zeros_body(3, true)
}
#[kani::proof]
#[kani::unwind(10)]
#[kani::stub(core::hint::spin_loop, crate::verif_support::spin_loop_model)]
fn bf_set_first_zeros_o7() {
    int_set_first_zeros_body(7, true)
}

// @h props=C21 tier=thorough geom=4 panics=C03 mem=C18 unwind=C21
#[kani::proof]
#[kani::unwind(10)]
#[kani::stub(core::hint::spin_loop, crate::verif_support::spin_loop_model)]
fn bf_set_first_zeros_o0() {
    int_set_first_zeros_body(0, true)
}
#[kani::proof]
#[kani::unwind(10)]
#[kani::stub(core::hint::spin_loop, crate::verif_support::spin_loop_model)]
fn bf_set_first_zeros_o6() {
    int_set_first_zeros_body(6, true)
}
#[kani::proof]
#[kani::unwind(10)]
#[kani::stub(core::hint::spin_loop, crate::verif_support::spin_loop_model)]
fn bf_set_first_zeros_o8() {
    int_set_first_zeros_body(8, true)
}

// @h props=C21 tier=quick geom=4 panics=C03 mem=C18 unwind=C21
#[kani::proof]
#[kani::unwind(10)]
#[kani::stub(core::hint::spin_loop, crate::verif_support::spin_loop_model)]
fn bf_toggle_alloc_o0() {
    int_toggle_body(0, false, true)
}
#[kani::proof]
#[kani::unwind(10)]
#[kani::stub(core::hint::spin_loop, crate::verif_support::spin_loop_model)]
fn bf_toggle_alloc_o3() {
    int_toggle_body(3, false, true)
}
#[kani::proof]
#[kani::unwind(10)]
#[kani::stub(core::hint::spin_loop, crate::verif_support::spin_loop_model)]
fn bf_toggle_alloc_o7() {
    int_toggle_body(7, false, true)
}

// @h props=C21 tier=quick geom=4 panics=C03 mem=C18 unwind=C21
#[kani::proof]
#[kani::unwind(10)]
#[kani::stub(core::hint::spin_loop, crate::verif_support::spin_loop_model)]
fn bf_toggle_free_o0() {
    int_toggle_body(0, true, true)
}
#[kani::proof]
#[kani::unwind(10)]
#[kani::stub(core::hint::spin_loop, crate::verif_support::spin_loop_model)]
fn bf_toggle_free_o3() {
    int_toggle_body(3, true, true)
}
#[kani::proof]
#[kani::unwind(10)]
#[kani::stub(core::hint::spin_loop, crate::verif_support::spin_loop_model)]
fn bf_toggle_free_o7() {
    int_toggle_body(7, true, true)
}
