//! Harnesses for core/src/trees.rs: tree-entry transitions on arbitrary entries (C13, C15, C09),
//! the candidate search (C16).
#![allow(dead_code, unused_imports)]
use super::*;
use crate::verif_support::*;
use core::cell::Cell;

pub(crate) fn any_tree() -> Tree {
    let free: usize = kani::any();
    let class: u8 = kani::any();
    kani::assume(free <= TREE_FRAMES && class < Class::LEN);
    Tree::with(free, kani::any(), Class(class))
}
/// (harness) a typed array of tree entries; `Tree` is private to this module, so other harness
/// modules go through this wrapper.
pub(crate) struct TreeArr<const N: usize> {
    a: [Atom<Tree>; N],
}
impl<const N: usize> TreeArr<N> {
    pub fn zeroed() -> Self {
        Self { a: core::array::from_fn(|_| Atom::new(Tree::with(0, false, Class(0)))) }
    }
    pub fn trees(&self, default: Class) -> Trees<'_> {
        Trees { entries: &self.a, default }
    }
    /// the first `n` entries only
    pub fn trees_n(&self, n: usize, default: Class) -> Trees<'_> {
        Trees { entries: &self.a[..n], default }
    }
    /// raw (free, reserved, class), bypassing the observers
    pub fn raw(&self, i: usize) -> (usize, bool, Class) {
        let t = Tree::from_bits(self.a[i].0.load(core::sync::atomic::Ordering::Relaxed));
        (t.free(), t.reserved(), t.class())
    }
    pub fn set(&self, i: usize, free: usize, reserved: bool, class: Class) {
        self.a[i].0.store(Tree::with(free, reserved, class).into_bits(), core::sync::atomic::Ordering::Relaxed);
    }
}
pub(crate) fn any_class() -> Class {
    let c: u8 = kani::any();
    kani::assume(c < Class::LEN);
    Class(c)
}

/// tree state after `Tree::steal`: the class reported for the allocation is the new entry's class
// @h props=C13,C09 tier=quick geom=4 panics=C09 mem=C18
#[kani::proof]
fn c13_tree_steal_class() {
    let e = any_tree();
    let class = any_class();
    let order: usize = kani::any();
    kani::assume(order <= TREE_ORDER);
    let frames = 1usize << order;
    let policy = any_policy();
    let r = e.steal(class, frames, policy);
    let verdict = policy(class, e.class(), frames);
    vcover!("C13", r.is_some() && matches!(verdict, Policy::Steal), "steal path");
    vcover!("C13", r.is_some() && matches!(verdict, Policy::Demote), "demote path");
    match r {
        Some(n) => {
            vassert!("C13", !e.reserved() && e.free() >= frames, "frames are only taken from unreserved trees that have them");
            vassert!("C13", n.free() == e.free() - frames && !n.reserved(), "exactly the requested frames are taken");
            vassert!("C13", verdict != Policy::Invalid, "no allocation from a tree the policy declares unusable");
            let reported = n.class();
            vassert!("C13", reported == class || (reported == e.class() && verdict == Policy::Steal),
                "reported class is the requested one, or the target's class when the policy says steal");
            if matches!(verdict, Policy::Match(_) | Policy::Demote) {
                vassert!("C13", reported == class, "match/demote report the requested class");
            }
        }
        None => {
            vassert!("C10", e.reserved() || e.free() < frames || verdict == Policy::Invalid,
                "a global steal is refused only for reserved trees, too few counted frames or an unusable class");
        }
    }
}

// @h props=C13,C09 tier=quick geom=4 panics=C09 mem=C18
#[kani::proof]
fn c13_tree_reserve_or_steal_class() {
    let e = any_tree();
    let class = any_class();
    let order: usize = kani::any();
    kani::assume(order <= TREE_ORDER);
    let frames = 1usize << order;
    let policy = any_policy();
    let r = e.reserve_or_steal(frames, policy, class);
    let verdict = policy(class, e.class(), frames);
    vcover!("C13", r.is_some_and(|n| n.reserved()), "reserve path");
    vcover!("C13", r.is_some_and(|n| !n.reserved()), "steal path");
    match r {
        Some(n) => {
            vassert!("C13", !e.reserved() && e.free() >= frames, "only unreserved trees with enough frames");
            vassert!("C13", verdict != Policy::Invalid, "no allocation from a tree the policy declares unusable");
            if n.reserved() {
                vassert!("C13", matches!(verdict, Policy::Match(_) | Policy::Demote), "reservation only on match/demote");
                vassert!("C13", n.class() == class && n.free() == 0, "a reserved tree takes the requested class and hands all counted frames to the slot");
            } else {
                vassert!("C13", verdict == Policy::Steal && n.class() == e.class() && n.free() == e.free() - frames,
                    "stealing keeps the target's class and takes exactly the frames");
            }
        }
        None => {
            vassert!("C10", e.reserved() || e.free() < frames || verdict == Policy::Invalid,
                "reserve-or-steal is refused only for reserved trees, too few counted frames or an unusable class");
        }
    }
}

/// `Tree::put` and `Tree::unreserve_add` with the repository's policies never overflow the counter
/// when the caller returns frames that were taken from this tree (free + returned <= TREE_FRAMES).
// @h props=C04,C09 tier=quick geom=4 panics=C09 mem=C18
#[kani::proof]
fn c04_tree_put_unreserve() {
    let e = any_tree();
    let ret: usize = kani::any();
    kani::assume(ret <= TREE_FRAMES && e.free() + ret <= TREE_FRAMES);
    let policy = any_builtin_policy();
    let default = any_class();
    let n = e.put(ret, policy, default);
    vassert!("C04", n.free() == e.free() + ret && n.reserved() == e.reserved(), "put adds exactly the returned frames");
    vassert!("C04", n.class() == e.class() || (n.free() == TREE_FRAMES && n.class() == default), "class only resets when the tree became entirely free");
    let class = any_class();
    // unreserve-safe pair (invariant of reserved trees, see DESIGN.md §3)
    kani::assume(matches!(policy(class, e.class(), ret), Policy::Match(_) | Policy::Demote));
    match e.unreserve_add(ret, class, policy, default) {
        Some(u) => {
            vassert!("C04", e.reserved() && !u.reserved() && u.free() == e.free() + ret, "unreserve merges the slot's counter into the tree");
        }
        None => vassert!("C04", !e.reserved(), "unreserve only fails on a tree that is not reserved"),
    }
}

// @h props=C11 tier=quick geom=4 panics=C09 mem=C18
#[kani::proof]
fn c11_tree_sync_steal() {
    let e = any_tree();
    let order: usize = kani::any();
    let local_free: usize = kani::any();
    kani::assume(order <= TREE_ORDER && local_free < (1 << order));
    // what get_local asks for: the frames still missing in the slot
    let min = (1usize << order) - local_free;
    let r = e.sync_steal(min);
    vcover!("C11", r.is_some() && e.free() == min, "boundary: tree holds exactly the missing frames");
    match r {
        Some(n) => {
            vassert!("C11", e.reserved() && n.free() == 0 && n.reserved() && n.class() == e.class(), "sync moves the whole counter to the slot");
            vassert!("C11", e.free() + local_free >= (1 << order), "sync only when it makes the request satisfiable");
        }
        None => {
            vassert!("C11", !e.reserved() || e.free() + local_free < (1 << order),
                "sync with the reserved tree is refused only if slot and tree together hold too few frames");
        }
    }
}

/// `Tree::change` (C15)
// @h props=C15,C09 tier=quick geom=4 panics=C09 mem=C18
#[kani::proof]
fn c15_tree_change() {
    let e = any_tree();
    let m_class: Option<Class> = if kani::any() { Some(any_class()) } else { None };
    let m_free: usize = kani::any();
    let c_class: Option<Class> = if kani::any() { Some(any_class()) } else { None };
    let op = match kani::any::<u8>() % 3 {
        0 => None,
        1 => Some(TreeOperation::Online),
        _ => Some(TreeOperation::Offline),
    };
    let lower_free: usize = kani::any();
    kani::assume(lower_free <= TREE_FRAMES);
    let r = e.change(m_class, m_free, TreeChange { class: c_class, operation: op.clone() }, || lower_free);
    let matches = !e.reserved() && m_class.is_none_or(|k| k == e.class()) && e.free() >= m_free;
    vcover!("C15", r.is_some() && op == Some(TreeOperation::Offline) && e.free() == TREE_FRAMES, "offline of an entirely free tree");
    vcover!("C15", r.is_some() && op == Some(TreeOperation::Online), "online");
    if e.free() == TREE_FRAMES && !e.reserved() && op == Some(TreeOperation::Offline) && m_class.is_none_or(|k| k == e.class()) && m_free <= TREE_FRAMES {
        vassert!("C15", r.is_some(), "taking an unreserved, entirely free tree offline succeeds");
    }
    match r {
        Some(n) => {
            vassert!("C15", matches, "tree changes never apply to reserved trees or trees that do not match");
            vassert!("C15", !n.reserved(), "a change never reserves");
            vassert!("C15", n.class() == c_class.unwrap_or(e.class()), "class is the requested one (or unchanged)");
            match op {
                Some(TreeOperation::Offline) => vassert!("C15", n.free() == 0, "offline removes the tree's frames from the fast count"),
                Some(TreeOperation::Online) => vassert!("C15", e.free() == 0 && n.free() == lower_free, "online restores exactly the frames free in the tree"),
                None => vassert!("C15", n.free() == e.free(), "a pure class change keeps the counter"),
            }
        }
        None => {
            vassert!("C15", !matches || (op == Some(TreeOperation::Online) && e.free() != 0), "a matching tree is only refused for online of a non-empty counter");
        }
    }
}

// ---------------------------------------------------------------------------------------------
// search_best (C16): with an always-failing, recording `access`
// ---------------------------------------------------------------------------------------------
struct Rec<const LOG: usize> {
    n: Cell<usize>,
    ids: [Cell<usize>; LOG],
}

fn rating_rank(p: Policy, full: bool) -> u32 {
    let p = match p {
        Policy::Match(m) => m as u32,
        Policy::Demote => 256,
        Policy::Steal => 257,
        Policy::Invalid => 258,
    };
    p * 2 + full as u32
}

fn search_best_body<const N: usize, const M: usize>() {
    // M trees; tree i has class i so that an arbitrary rating table indexed by class gives
    // every tree an arbitrary, deterministic rating
    let entries: [Atom<Tree>; M] = core::array::from_fn(|i| {
        let free: usize = kani::any();
        kani::assume(free <= TREE_FRAMES);
        Atom::new(Tree::with(free, kani::any(), Class(i as u8)))
    });
    let table: [u8; M] = kani::any();
    let decode = |c: u8| match c % 6 {
        0 => Policy::Invalid,
        1 => Policy::Match(u8::MAX),
        2 => Policy::Match(c / 6 % 3),
        3 => Policy::Demote,
        4 => Policy::Steal,
        _ => Policy::Match(1),
    };
    let trees = Trees { entries: &entries, default: Class(0) };
    let rate = |c: Class, _free: usize| decode(table[c.0 as usize]);
    let rec = Rec::<M> { n: Cell::new(0), ids: core::array::from_fn(|_| Cell::new(usize::MAX)) };
    let start: usize = kani::any();
    kani::assume(start < M);
    install(Mode::Seq);
    let r: Result<()> = trees.search_best::<N, _>(TreeId(start), 0, M, rate, |i| {
        let n = rec.n.get();
        if n < M {
            rec.ids[n].set(i.0);
        }
        rec.n.set(n + 1);
        Err(Error::Memory)
    });
    set_mode(Mode::Off);
    vassert!("C16", r == Err(Error::Memory), "search fails when every access fails");
    let n = rec.n.get();
    vassert!("C16", n <= M, "no tree is tried twice");
    // classify trees
    let key = |i: usize| {
        let t = entries[i].load();
        (t.reserved(), decode(table[i]), t.free() == TREE_FRAMES)
    };
    let mut tried = [false; M];
    let mut perfect_done = false;
    let mut last_rank: Option<u32> = None;
    let mut n_cand_tried = 0usize;
    let mut min_tried_rank = u32::MAX;
    for k in 0..M {
        if k < n {
            let i = rec.ids[k].get();
            vassert!("C16", i < M, "accessed trees exist");
            let (reserved, p, full) = key(i);
            vassert!("C16", !tried[i], "no tree is tried twice");
            tried[i] = true;
            vassert!("C16", !reserved && p != Policy::Invalid, "reserved trees and unusable trees are never tried");
            if p == Policy::Match(u8::MAX) {
                vassert!("C16", !perfect_done, "perfect matches are tried during the scan, before the remembered candidates");
            } else {
                perfect_done = true;
                let rk = rating_rank(p, full);
                if let Some(l) = last_rank {
                    vassert!("C16", rk <= l, "remembered candidates are tried from best to worst");
                }
                last_rank = Some(rk);
                n_cand_tried += 1;
                if rk < min_tried_rank {
                    min_tried_rank = rk;
                }
            }
        }
    }
    // every perfect match is tried; of the others the best N
    let mut n_cand = 0usize;
    for i in 0..M {
        let (reserved, p, full) = key(i);
        if !reserved && p == Policy::Match(u8::MAX) {
            vassert!("C16", tried[i], "every perfect match is tried");
        }
        if !reserved && p != Policy::Invalid && p != Policy::Match(u8::MAX) {
            n_cand += 1;
            if !tried[i] {
                vassert!("C16", rating_rank(p, full) <= min_tried_rank, "only lower-rated candidates are forgotten");
            }
        }
    }
    vcover!("C16", n_cand > N, "more candidates than the search can remember");
    vcover!("C16", n_cand_tried >= 2, "several remembered candidates tried");
    vassert!("C16", n_cand_tried == if n_cand < N { n_cand } else { N }, "as many candidates as fit are remembered and tried");
}

// @h props=C16 tier=quick geom=4 panics=C09 mem=C18
#[kani::proof]
#[kani::unwind(6)]
#[kani::stub(<[u8]>::rotate_right, crate::verif_support::rotate_right_model)]
#[kani::stub(<[u8]>::rotate_left, crate::verif_support::rotate_left_model)]
fn c16_search_best_n2_m4() {
    search_best_body::<2, 4>()
}
// @h props=C16 tier=thorough geom=4 panics=C09 mem=C18
#[kani::proof]
#[kani::unwind(8)]
#[kani::stub(<[u8]>::rotate_right, crate::verif_support::rotate_right_model)]
#[kani::stub(<[u8]>::rotate_left, crate::verif_support::rotate_left_model)]
fn c16_search_best_n3_m6() {
    search_best_body::<3, 6>()
}

// ---------------------------------------------------------------------------------------------
// Tree counters under interference (C03 / C04, upper level): per-operation delta balance.
// Ghost PENDING = frames the call under test is carrying between the lower layer / a slot and
// the tree counter. The environment may rewrite the tree word arbitrarily before each of my
// accesses, subject only to: the counter never includes frames I carry
// (free <= TREE_FRAMES - PENDING), and a tree whose reservation token I hold stays reserved
// with a class my slot class can be returned to. Obligations: no panic, and every successful
// RMW of mine moves the counter by exactly the frames I hand over / take (PENDING balance 0 at
// return) - so `sum of counters + sum of pending == lower free` is preserved by every atomic
// step of every thread, and fast == exact whenever no call is in flight, for any thread count.
// ---------------------------------------------------------------------------------------------
static mut TI_ATOM: *const Atom<Tree> = core::ptr::null();
static mut TI_PENDING: usize = 0;
static mut TI_TOKEN: Option<Class> = None; // I hold the reservation of this tree (slot class)
static mut TI_POLICY: Option<PolicyFn> = None;
static mut TI_DELTA_FREE: isize = 0;
static mut TI_ENV_STEPS: usize = 0;
static mut TI_BAD: bool = false;

fn ti_env(_addr: *const u8, _size: usize) {
    unsafe {
        if !kani::any::<bool>() {
            return;
        }
        let t = any_tree();
        kani::assume(t.free() + TI_PENDING <= TREE_FRAMES);
        if let Some(c) = TI_TOKEN {
            kani::assume(t.reserved());
            let pf = TI_POLICY;
            let p = (pf.unwrap())(c, t.class(), TI_PENDING);
            kani::assume(matches!(p, Policy::Match(_) | Policy::Demote));
        }
        (*TI_ATOM).0.store(t.into_bits(), core::sync::atomic::Ordering::Relaxed);
        TI_ENV_STEPS += 1;
    }
}
fn ti_on_write(_addr: *const u8, _size: usize, old: u64, new: u64) {
    unsafe {
        let (o, n) = (Tree::from_bits(old as u32), Tree::from_bits(new as u32));
        TI_DELTA_FREE += n.free() as isize - o.free() as isize;
        let tok = TI_TOKEN;
        if o.reserved() && !n.reserved() && tok.is_none() {
            TI_BAD = true; // unreserved a tree without holding its token
        }
    }
}
fn ti_setup(a: &Atom<Tree>, pending: usize, token: Option<Class>, policy: PolicyFn) {
    unsafe {
        TI_ATOM = a;
        TI_PENDING = pending;
        TI_TOKEN = token;
        TI_POLICY = Some(policy);
        TI_DELTA_FREE = 0;
        TI_ENV_STEPS = 0;
        TI_BAD = false;
        ENV = Some(ti_env);
        ON_WRITE = Some(ti_on_write);
        FREEZE_AT = usize::MAX;
    }
    install(Mode::Interference);
}

// @h props=C03,C04 tier=quick geom=4 panics=C03 mem=C18 unwind=C21
#[kani::proof]
#[kani::unwind(5)]
fn ti_put_under_interference() {
    let entries = [Atom::new(any_tree())];
    let policy = any_builtin_policy();
    let trees = Trees { entries: &entries, default: any_class() };
    let frames: usize = kani::any();
    kani::assume(frames >= 1 && frames <= TREE_FRAMES);
    kani::assume(Tree::from_bits(entries[0].0.load(core::sync::atomic::Ordering::Relaxed)).free() + frames <= TREE_FRAMES);
    ti_setup(&entries[0], frames, None, policy);
    trees.put(TreeId(0), frames, policy);
    set_mode(Mode::Off);
    vcover!("C04", unsafe { TI_ENV_STEPS } > 0, "other threads changed the counter meanwhile");
    vassert!("C04", unsafe { TI_DELTA_FREE } == frames as isize, "returning frames to a tree raises its counter by exactly those frames, whatever other threads do");
    vassert!("C03", !unsafe { TI_BAD }, "a counter update never unreserves a tree");
}

#[kani::proof]
#[kani::unwind(5)]
fn ti_unreserve_under_interference() {
    let policy = any_builtin_policy();
    let class = any_class();
    let t = any_tree();
    let free: usize = kani::any();
    kani::assume(free <= TREE_FRAMES && t.free() + free <= TREE_FRAMES && t.reserved());
    kani::assume(matches!(policy(class, t.class(), free), Policy::Match(_) | Policy::Demote));
    let entries = [Atom::new(t)];
    let trees = Trees { entries: &entries, default: any_class() };
    ti_setup(&entries[0], free, Some(class), policy);
    trees.unreserve(TreeId(0), free, class, policy);
    set_mode(Mode::Off);
    let n = Tree::from_bits(entries[0].0.load(core::sync::atomic::Ordering::Relaxed));
    vcover!("C04", unsafe { TI_ENV_STEPS } > 0, "other threads changed the counter meanwhile");
    vassert!("C04", unsafe { TI_DELTA_FREE } == free as isize, "returning a reservation adds exactly the slot's frames to the tree counter");
    vassert!("C03", !n.reserved() || unsafe { TI_ENV_STEPS } > 0, "the tree is unreserved by the holder of its reservation");
}

#[kani::proof]
#[kani::unwind(5)]
fn ti_take_under_interference() {
    // steal / reserve_or_steal / sync: arbitrary interference, no rely needed
    let entries = [Atom::new(any_tree())];
    let policy = any_policy();
    let trees = Trees { entries: &entries, default: any_class() };
    let class = any_class();
    let order: usize = kani::any();
    kani::assume(order <= TREE_ORDER);
    let frames = 1usize << order;
    ti_setup(&entries[0], 0, None, policy);
    let which: u8 = kani::any();
    let mut taken: usize = 0;
    match which % 3 {
        0 => {
            if trees.steal(TreeId(0), class, frames, policy).is_some() {
                taken = frames;
            }
        }
        1 => {
            if let Some((reserved, free, _c)) = trees.reserve_or_steal(TreeId(0), class, frames, policy) {
                taken = if reserved { free } else { frames };
                if reserved {
                    vassert!("C04", free >= frames, "a reservation hands over at least the requested frames");
                }
            }
        }
        _ => {
            let min: usize = kani::any();
            kani::assume(min >= 1 && min <= TREE_FRAMES);
            if let Some(free) = trees.sync(TreeId(0), min) {
                taken = free;
                vassert!("C04", free >= min, "a sync hands over at least the missing frames");
            }
        }
    }
    set_mode(Mode::Off);
    vcover!("C04", taken > 0 && unsafe { TI_ENV_STEPS } > 0, "frames taken although other threads interfered");
    vassert!("C04", unsafe { TI_DELTA_FREE } == -(taken as isize), "taking frames from a tree lowers its counter by exactly what the call receives, whatever other threads do");
    vassert!("C03", !unsafe { TI_BAD }, "taking frames never unreserves a tree");
}
